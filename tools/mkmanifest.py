#!/usr/bin/env python3
"""Regenerates MANIFEST.json from the table below (keeps it valid at every commit)."""
import json, os, sys
HERE = os.path.dirname(os.path.dirname(os.path.abspath(__file__)))
sys.path.insert(0, os.path.join(HERE, "vlib"))

CLAIMED = {
    "C11": dict(
        engine="part",
        text="PartTree.tla (persistent ordered map: versions, transactions, clones, iterators) is model-checked by TLC "
             "for small constants; TLC prints one script per transition of the bounded state graph and shaped generators "
             "add fan-outs across 4/16/48/256, chains, binary keys and branching histories; every script is executed on "
             "the real part.Tree and the log is validated by TLC against PartTrace.tla, which recomputes every reply "
             "(old values, Get, Len, Prefix, LowerBound, iteration) of every retained tree, clone and iterator.",
        note="TLC 1.8 and the CommunityModules Json/IOUtils modules; the Go harness logs results faithfully; bounded "
             "constants / sampled scripts (small-scope); Notify only along a linear history.",
        technique="TLA+ spec PartTree.tla; TLC model checking + TLC-generated scripts replayed on the code + TLC trace validation",
        design_ref="4.1, 5.1, 5.2, 7 (C11)"),
    "C12": dict(
        engine="part",
        text="The watch-channel contract of part.Tree is part of PartTree.tla (per channel: must-close / may-close "
             "bookkeeping along the linear history, exact root channel, abandoned transactions close nothing); TLC checks "
             "it on the bounded model, generates scripts, and validates the closed/open bits the harness samples at every "
             "hand-out and after every Commit, Notify, CommitAndNotify and abandon, in per-node and root-only mode.",
        note="As C11; spurious closes of non-root channels are allowed after a notified dirty transaction; channels handed "
             "out by a transaction carry no obligation for later changes inside the same transaction.",
        technique="TLA+ spec PartTree.tla (channel obligations); TLC model checking + script replay + TLC trace validation",
        design_ref="4.1, 7 (C12), 9"),
    "C13": dict(
        engine="lpm",
        text="LPM.tla models the trie as a persistent ordered map from bit prefixes with longest-covering-prefix lookup, "
             "covered-by Prefix, LowerBound and ordered iteration (order lemma checked by TLC); TLC model-checks it, prints "
             "one script per transition, and validates logs of the real lpm.Trie/Txn/Iterator (TLC scripts + shaped "
             "histories with diverging queries, reused transactions, retained tries and iterators) against LPMTrace.tla.",
        note="As C11. Lookup is judged for full-length keys and stored prefixes only (the property's domain).",
        technique="TLA+ spec LPM.tla; TLC model checking + script replay + TLC trace validation",
        design_ref="4.3, 7 (C13)"),
}

ALL = [f"C{i:02d}" for i in range(1, 21)]

def main():
    checks = []
    for pid, c in CLAIMED.items():
        checks.append({
            "property_id": pid,
            "quick_cmd": f"./vcheck {pid} --tier quick",
            "thorough_cmd": f"./vcheck {pid} --tier thorough",
            "evidence_file": f"/verif/evidence/{pid}.json",
            "replay_cmd_template": "./vcheck replay {path}",
            "engine": c["engine"],
            "level_claimed": {"category": "model_checking", "text": c["text"], "design_ref": c["design_ref"]},
            "level_note": c["note"],
            "technique": c["technique"],
        })
    na = [{"property_id": p, "reason": "check not built yet at this commit (work in progress, see DESIGN.md section 12); "
           "nothing is claimed for it"} for p in ALL if p not in CLAIMED]
    hooks_commits = []
    hp = os.path.join(HERE, "hooks_commits.txt")
    if os.path.exists(hp):
        hooks_commits = [l.strip() for l in open(hp) if l.strip()]
    m = {
        "version": 1,
        "setup_cmd": "./vcheck setup",
        "hooks": {
            "guard": "verif",
            "enable": "go build/test -tags verif (the harness is built with the tag; see DESIGN.md section 6)",
            "baseline_off_cmd": "cd /repo && GOFLAGS=-mod=mod go test -vet=off -count=1 -timeout 25m ./...",
            "source_commits": hooks_commits,
            "add_only": True,
        },
        "engines": [
            {"name": "part", "path": "harness/drv_part.go + spec/PartTree.tla + spec/trace/PartTrace.tla",
             "serves_properties": ["C11", "C12"],
             "kind_free_text": "script interpreter for part.Tree + TLA+ trace specification checked by TLC"},
            {"name": "lpm", "path": "harness/drv_lpm.go + spec/LPM.tla + spec/trace/LPMTrace.tla",
             "serves_properties": ["C13"],
             "kind_free_text": "script interpreter for lpm.Trie + TLA+ trace specification checked by TLC"},
        ],
        "checks": checks,
        "not_applicable": na,
        "notes": "All checks: ./vcheck <id> --tier quick|thorough; exit 0/1/2 (2 = machinery error, never a violation). "
                 "VERIF_SEED seeds generators and sampling.",
    }
    with open(os.path.join(HERE, "MANIFEST.json"), "w") as f:
        json.dump(m, f, indent=1)
    print("MANIFEST.json written:", len(checks), "checks,", len(na), "not claimed")

if __name__ == "__main__":
    main()
