#!/usr/bin/env python3
"""Regenerates MANIFEST.json from the table below (keeps it valid at every commit)."""
import json, os, sys
HERE = os.path.dirname(os.path.dirname(os.path.abspath(__file__)))
sys.path.insert(0, os.path.join(HERE, "vlib"))

CLAIMED = {
    "C11": dict(
        engine="part",
        text="PartTree.tla (persistent ordered map: versions, transactions, clones, iterators) is model-checked by TLC "
             "for small constants; TLC prints one script per transition of the bounded state graph and shaped generators "
             "add fan-outs across 4/16/48/256, chains, binary keys and branching histories; every script is executed on "
             "the real part.Tree and the log is validated by TLC against PartTrace.tla, which recomputes every reply "
             "(old values, Get, Len, Prefix, LowerBound, iteration) of every retained tree, clone and iterator.",
        note="TLC 1.8 and the CommunityModules Json/IOUtils modules; the Go harness logs results faithfully; bounded "
             "constants / sampled scripts (small-scope); Notify only along a linear history.",
        technique="TLA+ spec PartTree.tla; TLC model checking + TLC-generated scripts replayed on the code + TLC trace validation",
        design_ref="4.1, 5.1, 5.2, 7 (C11)"),
    "C12": dict(
        engine="part",
        text="The watch-channel contract of part.Tree is part of PartTree.tla (per channel: must-close / may-close "
             "bookkeeping along the linear history, exact root channel, abandoned transactions close nothing); TLC checks "
             "it on the bounded model, generates scripts, and validates the closed/open bits the harness samples at every "
             "hand-out and after every Commit, Notify, CommitAndNotify and abandon, in per-node and root-only mode.",
        note="As C11; spurious closes of non-root channels are allowed after a notified dirty transaction; channels handed "
             "out by a transaction carry no obligation for later changes inside the same transaction.",
        technique="TLA+ spec PartTree.tla (channel obligations); TLC model checking + script replay + TLC trace validation",
        design_ref="4.1, 7 (C12), 9"),
    "C13": dict(
        engine="lpm",
        text="LPM.tla models the trie as a persistent ordered map from bit prefixes with longest-covering-prefix lookup, "
             "covered-by Prefix, LowerBound and ordered iteration (order lemma checked by TLC); TLC model-checks it, prints "
             "one script per transition, and validates logs of the real lpm.Trie/Txn/Iterator (TLC scripts + shaped "
             "histories with diverging queries, reused transactions, retained tries and iterators) against LPMTrace.tla.",
        note="As C11. Lookup is judged for full-length keys and stored prefixes only (the property's domain).",
        technique="TLA+ spec LPM.tla; TLC model checking + script replay + TLC trace validation",
        design_ref="4.3, 7 (C13)"),
    "C01": dict(
        engine="db",
        text='Table.tla/DB.tla model snapshots as frozen copies of the committed root (TLC: action property Prop_C01_Frozen on the bounded model). drv_db retains snapshots and re-issues the same queries (every query kind on primary, unique, multi-key, unique/non-unique LPM and revision indexes, NumObjects, Revision) after later committed, aborted and pending transactions and after graveyard collection; DBTrace.tla (TLC) rejects any re-query whose result differs from its first observation (C01_Stable).',
        note='TLC 1.8 + CommunityModules; the Go harness logs replies faithfully; sequential driver (one goroutine) under testing/synctest; sampled shaped histories (small-scope); two live objects never share a unique secondary key; LPM Get/List judged for full-length keys and stored prefixes.',
        technique="TLA+ specs Table.tla + DB.tla; TLC model checking + TLC trace validation (DBTrace.tla) of logs of the real DB",
        design_ref='4.5, 4.6, 7 (C01)'),
    "C02": dict(
        engine="db",
        text='DB.tla: Commit publishes all tables of a transaction in one step; Abort changes nothing (TLC: Prop_C02_Abort on the bounded model). drv_db aborts about half of the transactions (writes on every index kind, Changes(), initializer registration/completion, InsertWatch) and TLC validates that the full query battery, revisions, channel bits, initializer state and all later transactions equal what DB.tla predicts from the pre-transaction state (C02_AbortNoTrace, C06_C02_AbortOpen, C02_AbortPanic). Across goroutines: DBImpl.tla (Inv_C02_Atomic/NoTrace) and schedule replay (drv_sched): after every protocol step a fresh reader must see the abstract root or the root after publishing exactly one open transaction, and the snapshot returned by Commit is queried later and must be the state at that publish.',
        note='TLC 1.8 + CommunityModules; the Go harness logs replies faithfully; sequential driver (one goroutine) under testing/synctest; sampled shaped histories (small-scope); two live objects never share a unique secondary key; LPM Get/List judged for full-length keys and stored prefixes.',
        technique="TLA+ specs Table.tla + DB.tla; TLC model checking + TLC trace validation (DBTrace.tla) of logs of the real DB",
        design_ref='4.6, 7 (C02)'),
    "C03": dict(
        engine="db",
        text='Table.tla defines Insert/Modify/Delete/DeleteAll/CompareAndSwap/CompareAndDelete as operators on a keyed map with the documented replies; DB.tla adds the not-locked/closed-transaction errors. TLC model-checks DB.tla and validates every reply (had/old/error), read-your-writes inside the transaction and the unchanged state after rejected operations in logs of the real code.',
        note='TLC 1.8 + CommunityModules; the Go harness logs replies faithfully; sequential driver (one goroutine) under testing/synctest; sampled shaped histories (small-scope); two live objects never share a unique secondary key; LPM Get/List judged for full-length keys and stored prefixes.',
        technique="TLA+ specs Table.tla + DB.tla; TLC model checking + TLC trace validation (DBTrace.tla) of logs of the real DB",
        design_ref='4.5, 7 (C03)'),
    "C04": dict(
        engine="db",
        text='Table.tla gives the exact ordered result of Get/List/Prefix/LowerBound/All/NumObjects/ByRevision for primary, unique, multi-key non-unique, unique and non-unique LPM indexes; TLC recomputes every logged query result (fresh snapshots and inside write transactions, keys empty / prefixes of one another / 0x00 0x01 0xff, objects whose key sets grow, shrink or become empty).',
        note='TLC 1.8 + CommunityModules; the Go harness logs replies faithfully; sequential driver (one goroutine) under testing/synctest; sampled shaped histories (small-scope); two live objects never share a unique secondary key; LPM Get/List judged for full-length keys and stored prefixes.',
        technique="TLA+ specs Table.tla + DB.tla; TLC model checking + TLC trace validation (DBTrace.tla) of logs of the real DB",
        design_ref='4.5, 7 (C04)'),
    "C06": dict(
        engine="db",
        text='DB.tla keeps for every channel the query, its result and table revision at hand-out; AfterPublish computes which channels must be closed after a commit (result changed / table changed for AllWatch / object changed for InsertWatch) and MayClose which may be (newer table revision visible). TLC validates the channel bits sampled at hand-out and after every commit/abort: C06_Must, C06_C02_AbortOpen, C06_FreshOpen, C06_CloseAfterVisible. Known finding L (rejected compare-and-* closes channels) is matched by signature.',
        note='TLC 1.8 + CommunityModules; the Go harness logs replies faithfully; sequential driver (one goroutine) under testing/synctest; sampled shaped histories (small-scope); two live objects never share a unique secondary key; LPM Get/List judged for full-length keys and stored prefixes.',
        technique="TLA+ specs Table.tla + DB.tla; TLC model checking + TLC trace validation (DBTrace.tla) of logs of the real DB",
        design_ref='4.6, 7 (C06)'),
    "C07": dict(
        engine="db",
        text='DB.tla models change iterators by what they have delivered (replay map, delivered deletions, cursor) against the ideal graveyard; TLC validates every Next of the real code: strictly increasing revisions, only committed changes whatever transaction is passed, replay = snapshot and all owed deletions delivered at full consumption, nothing delivered with an open watch, open watch closes at the next changing commit. Virtual-time graveyard collection runs in between (testing/synctest). Graveyard.tla (TLC, 1.36 M states, five mutants) checks at design level that marking + lock-free scan + later removal provide exactly that (Inv_C07_Converge); TLC prints one script per transition of its graph of API calls, replayed through drv_db. statedb.Observable subscribers are judged as the iterators they are. Schedules (drv_sched) add an iterator consumer calling Next with snapshots taken between the store of a new root and the closing of the channels.',
        note='TLC 1.8 + CommunityModules; the Go harness logs replies faithfully; sequential driver (one goroutine) under testing/synctest; sampled shaped histories (small-scope); two live objects never share a unique secondary key; LPM Get/List judged for full-length keys and stored prefixes.',
        technique="TLA+ specs Table.tla + DB.tla; TLC model checking + TLC trace validation (DBTrace.tla) of logs of the real DB",
        design_ref='4.6, 7 (C07)'),
    "C08": dict(
        engine="db",
        text="DB.tla Needed(t) = deletions some open iterator created before them has not been handed; the real graveyard size (public Metrics interface) must be >= |Needed| always and = |Needed| after virtual-time quiescence, and C07's convergence must still hold for lagging iterators after collection runs. Graveyard.tla: Inv_C08_Retain, Inv_C08_NoTombstoneOfLive, Live_C08_Drain under fairness (mutants ignoreZero, keepOnReinsert, markSnapshot, closeNoTrigger, dropTriggerAfterPass are rejected). The scan/write window of the collector is exercised by drv_sched with the collector as an actor parked at gc.scanned and inside its write transaction (families sched-gc incl. gclate, sched-tlc-gc).",
        note='TLC 1.8 + CommunityModules; the Go harness logs replies faithfully; sequential driver (one goroutine) under testing/synctest; sampled shaped histories (small-scope); two live objects never share a unique secondary key; LPM Get/List judged for full-length keys and stored prefixes.',
        technique="TLA+ specs Table.tla + DB.tla; TLC model checking + TLC trace validation (DBTrace.tla) of logs of the real DB",
        design_ref='4.6, 7 (C08)'),
    "C09": dict(
        engine="db",
        text='Table.tla assigns revisions (strictly increasing per successful write, unchanged on no-op/rejected), TableOK states uniqueness and table revision = latest write; TLC checks Inv_C09_TableOK/SnapOK and Prop_C09_Monotone on the model and validates Table.Revision, every object revision in every query result and ByRevision queries for bounds 0..8 in logs of the real code.',
        note='TLC 1.8 + CommunityModules; the Go harness logs replies faithfully; sequential driver (one goroutine) under testing/synctest; sampled shaped histories (small-scope); two live objects never share a unique secondary key; LPM Get/List judged for full-length keys and stored prefixes.',
        technique="TLA+ specs Table.tla + DB.tla; TLC model checking + TLC trace validation (DBTrace.tla) of logs of the real DB",
        design_ref='4.5, 4.6, 7 (C09)'),
    "C19": dict(
        engine="db",
        text="DB.tla keeps the pending initializers per table state (registered/marked in the transaction's working copy, published at commit); TLC validates Initialized/PendingInitializers on every snapshot and transaction, that init channels close when the table becomes initialized (C19_InitSignal) and never before an initialized committed state exists (C19_InitEarly), across aborted registrations/marks.",
        note='TLC 1.8 + CommunityModules; the Go harness logs replies faithfully; sequential driver (one goroutine) under testing/synctest; sampled shaped histories (small-scope); two live objects never share a unique secondary key; LPM Get/List judged for full-length keys and stored prefixes.',
        technique="TLA+ specs Table.tla + DB.tla; TLC model checking + TLC trace validation (DBTrace.tla) of logs of the real DB",
        design_ref='4.6, 7 (C19)'),
    "C17": dict(
        engine="map",
        text="PartMap.tla treats every part.Map/part.Set/MapTxn operation as creating a new persistent value from older ones "
             "(later write wins in FromMap, set algebra for Union/Difference, JSON/YAML round trip yields an equal value); TLC "
             "model-checks it, prints one script per transition, and validates logs of the real code (TLC scripts + shaped "
             "branching histories crossing the empty/singleton/tree representations, MapTxn reused after Commit, partial "
             "iteration) against MapTrace.tla; every value obtained is re-read at the end of each script.",
        note="As C11; string keys (valid UTF-8) and int values.",
        technique="TLA+ spec PartMap.tla; TLC model checking + script replay + TLC trace validation",
        design_ref="4.2, 7 (C17)"),
    "C18": dict(
        engine="enc",
        text="KeyEnc.tla states what any correct composite-key encoding must satisfy (injective, order-embedding for (secondary, "
             "primary), separable) and the documented scheme; TLC checks the scheme on all pairs of pairs over {00,01,02,ff} up to "
             "length 2 (thorough: {00,01,02} up to 3) and evaluates the same requirements on the LOGGED outputs of "
             "encodeNonUniqueKey (verif accessor), index.Uint16/32/64, Int*, Bool, String and the LPM codec; black box: a "
             "non-unique index populated with such pairs is queried and DBTrace.tla validates the observed order. Known "
             "finding J (primary keys >= 256 escaped bytes) is matched by signature.",
        note="64-bit integers are compared as 16-bit limb sequences; requirements are evaluated on the logged function, so another "
             "correct scheme would pass.",
        technique="TLA+ spec KeyEnc.tla; TLC exhaustive evaluation on bounded strings + TLC validation of logged encoder outputs",
        design_ref="4.4, 7 (C18)"),
    "C05": dict(
        engine="sched",
        text="DBImpl.tla models WriteTxn/Commit/Abort/registerTable at the granularity of their critical sections (one action per "
             "verif gate); TLC checks Inv_C05_Serial/SeesEarlier/NoLost/RegKept, Prop_C05_Grow (and that six mutant protocols "
             "violate them). drv_sched replays random and TLC-generated schedules on the real goroutines, parking them at "
             "every gate, and logs a probe of the committed state after every step; SchedTrace.tla (TLC) explains every probe "
             "as the abstract root or the root after publishing exactly one open transaction, checks that no two open "
             "transactions share a table, that replies inside a transaction reflect every earlier commit and that "
             "registered tables never disappear.",
        note="TLC 1.8; goroutines are serialised by the verif hooks (one protocol step at a time), 'blocked' is the goroutine wait reason sync.Mutex.Lock read from runtime.Stack; <= 6 goroutines, 2-4 tables per configuration (65..130 in family sched-many); schedules sampled (random bursts + one per transition of the DBImpl.tla state graph).",
        technique="TLA+ specs DBImpl.tla (protocol) + DB.tla; TLC model checking incl. mutants, TLC-generated schedules replayed "
                  "through blocking hooks, TLC trace validation (SchedTrace.tla)",
        design_ref="4.7, 5.3, 7 (C05)"),
    "C10": dict(
        engine="sched",
        text="DBImpl.tla (writers, registrar, graveyard collector as actors): TLC deadlock check (no state constraint) for table sets given unsorted and with duplicates, liveness "
             "<>AllDone under weak fairness, Inv_C10_Independent; the unsorted-lock mutant deadlocks. drv_sched: every goroutine "
             "that does not reach its next gate is classified from its wait reason; SchedTrace.tla rejects a goroutine blocked "
             "on a table lock while no other transaction shares a table with it, blocked on the root mutex while nobody is "
             "inside the root section, a probe (reader) that does not complete at any gate, and a schedule whose actors cannot "
             "all finish; in sequential histories (drv_db) the death of the process with every goroutine asleep is a violation "
             "(C10_Deadlock).",
        note="TLC 1.8; goroutines are serialised by the verif hooks (one protocol step at a time), 'blocked' is the goroutine wait reason sync.Mutex.Lock read from runtime.Stack; <= 6 goroutines, 2-4 tables per configuration (65..130 in family sched-many); schedules sampled (random bursts + one per transition of the DBImpl.tla state graph).",
        technique="TLA+ spec DBImpl.tla (deadlock + liveness by TLC); schedule replay through blocking hooks; TLC trace validation",
        design_ref="4.7, 5.3, 7 (C10)"),
    "C14": dict(
        engine="rec",
        text="RecTrace.tla is a TLA+ monitor of the reconciler contract over the events at its boundary (user writes, every commit "
             "with its changed objects, every Update/Delete/Prune call with its outcome). drv_rec drives the real reconciler "
             "(hive + job cells) under virtual time with per-call failure patterns, writes injected while operations are in "
             "flight, round sizes 1..1000, batch and single mode; after the last failure/change time advances by "
             "(failures+2) x (max backoff+100 ms) and TLC checks that every live object is Done with its latest contents in the "
             "target and every removed object is gone (C14_Converged_*).",
        note='TLC 1.8; virtual time (testing/synctest), instantaneous operations, refresh loop enabled in family refresh and a fifth of the other scripts; every commit to the reconciled table is observed at its linearization point through the verif hook commit.stored; sampled environment scripts (<= 4 objects, <= 6 failures).',
        technique="TLA+ trace specification RecTrace.tla (monitor) checked by TLC on logs of the real reconciler under virtual time",
        design_ref="4.9, 5.5, 7 (C14)"),
    "C15": dict(
        engine="rec",
        text="RecTrace.tla checks every commit made by the reconciler against the table state before it and the last operation for "
             "that object: status-only (C15_StatusOnly), right version and outcome (C15_RightVersion/RightOutcome), no deleted "
             "object re-created (C15_NoResurrect), Done objects not updated again (C15_NotPendingNotUpdated), Prune only when "
             "initialized and with the complete table of its snapshot (C15_Prune*). drv_rec places update / delete / delete+re-insert / "
             "status-only writes of a second writer (through the shared reconciler.StatusSet where the objects carry one) between an "
             "operation and its status commit, for every outcome; every commit and quiescence event carries the whole table as it "
             "reads then, which must be what the logged commits put there (C15_NewerOverwritten). A second pass (RecAlgTrace.tla, "
             "note-only) checks that the same logs are behaviours of the algorithm model Reconciler.tla.",
        note='TLC 1.8; virtual time (testing/synctest), instantaneous operations, refresh loop enabled in family refresh and a fifth of the other scripts; every commit to the reconciled table is observed at its linearization point through the verif hook commit.stored; sampled environment scripts (<= 4 objects, <= 6 failures).',
        technique="TLA+ trace specification RecTrace.tla (monitor) checked by TLC on logs of the real reconciler under virtual time",
        design_ref="4.9, 5.5, 7 (C15)"),
    "C16": dict(
        engine="rec",
        text="RecTrace.tla measures, in virtual milliseconds, the wait between a failure and its retry: >= minimum backoff, not "
             "shrinking over consecutive failures, <= maximum + slack on an idle reconciler, restart after the object changes; "
             "WaitUntilReconciled(rev) returning without error requires an attempt at a revision >= the last user change <= rev of "
             "every object, and at quiescent moments the reported low watermark must be 0 iff no failed object awaits retry, else "
             "the revision at which the oldest still failing change was first attempted (Reconciler.tla: Inv_C16_LowWatermark).",
        note='TLC 1.8; virtual time (testing/synctest), instantaneous operations, refresh loop enabled in family refresh and a fifth of the other scripts; every commit to the reconciled table is observed at its linearization point through the verif hook commit.stored; sampled environment scripts (<= 4 objects, <= 6 failures).',
        technique="TLA+ trace specification RecTrace.tla (monitor) checked by TLC on logs of the real reconciler under virtual time",
        design_ref="4.9, 5.5, 7 (C16)"),
    "C20": dict(
        engine="ws",
        text="WatchSetProp.tla states the contract of Wait on call/return values (only closed members returned, exactly the returned "
             "removed, no empty result unless the context ended, context error, return no later than first close + settle or "
             "context end); WatchSet.tla is a code-shaped timed machine and TLC checks that all its returns satisfy the contract "
             "for all 40 000 scenarios of the bounded model; TLC prints those scenarios, drv_ws executes them (and random larger "
             "ones, incl. a second Wait on the same set) on the real WatchSet under virtual time and TLC evaluates the contract on "
             "every logged return.",
        note="TLC 1.8; virtual time (testing/synctest); simultaneous events may be served in any order; Add is not called concurrently with Wait.",
        technique="TLA+ specs WatchSetProp.tla/WatchSet.tla; TLC model checking, TLC-enumerated scenarios replayed, TLC trace validation",
        design_ref="4.8, 7 (C20)"),
}

ALL = [f"C{i:02d}" for i in range(1, 21)]

def main():
    checks = []
    for pid, c in sorted(CLAIMED.items()):
        checks.append({
            "property_id": pid,
            "quick_cmd": f"./vcheck {pid} --tier quick",
            "thorough_cmd": f"./vcheck {pid} --tier thorough",
            "evidence_file": f"/verif/evidence/{pid}.json",
            "replay_cmd_template": "./vcheck replay {path}",
            "engine": c["engine"],
            "level_claimed": {"category": "model_checking", "text": c["text"], "design_ref": c["design_ref"]},
            "level_note": c["note"],
            "technique": c["technique"],
        })
    na = [{"property_id": p, "reason": "check not built yet at this commit (work in progress, see DESIGN.md section 12); "
           "nothing is claimed for it"} for p in ALL if p not in CLAIMED]
    hooks_commits = []
    hp = os.path.join(HERE, "hooks_commits.txt")
    if os.path.exists(hp):
        hooks_commits = [l.strip() for l in open(hp) if l.strip()]
    m = {
        "version": 1,
        "setup_cmd": "./vcheck setup",
        "hooks": {
            "guard": "verif",
            "enable": "go build/test -tags verif (the harness is built with the tag; see DESIGN.md section 6)",
            "baseline_off_cmd": "cd /repo && GOFLAGS=-mod=mod go test -vet=off -count=1 -timeout 25m ./...",
            "source_commits": hooks_commits,
            "add_only": True,
        },
        "engines": [
            {"name": "part", "path": "harness/drv_part.go + spec/PartTree.tla + spec/trace/PartTrace.tla",
             "serves_properties": ["C11", "C12"],
             "kind_free_text": "script interpreter for part.Tree + TLA+ trace specification checked by TLC"},
            {"name": "lpm", "path": "harness/drv_lpm.go + spec/LPM.tla + spec/trace/LPMTrace.tla",
             "serves_properties": ["C13"],
             "kind_free_text": "script interpreter for lpm.Trie + TLA+ trace specification checked by TLC"},
            {"name": "db", "path": "harness/drv_db.go + spec/Table.tla + spec/DB.tla + spec/Graveyard.tla + spec/gen/GenDB.tla + spec/gen/GenGraveyard.tla + spec/trace/DBTrace.tla",
             "serves_properties": ["C01", "C02", "C03", "C04", "C06", "C07", "C08", "C09", "C10", "C19"],
             "kind_free_text": "sequential script interpreter for statedb.DB under testing/synctest + TLA+ trace specification checked by TLC"},
            {"name": "map", "path": "harness/drv_map.go + spec/PartMap.tla + spec/trace/MapTrace.tla",
             "serves_properties": ["C17"], "kind_free_text": "script interpreter for part.Map/Set + TLA+ trace specification"},
            {"name": "enc", "path": "harness/drv_enc.go + spec/KeyEnc.tla + spec/trace/EncTrace.tla",
             "serves_properties": ["C18"], "kind_free_text": "encoder output tables validated by TLC against KeyEnc.tla"},
            {"name": "sched", "path": "harness/drv_sched.go + spec/DBImpl.tla + spec/gen/GenDBImpl.tla + spec/trace/SchedTrace.tla",
             "serves_properties": ["C02", "C05", "C06", "C07", "C08", "C10", "C19"],
             "kind_free_text": "deterministic goroutine scheduler on the verif hooks + probes after every protocol step, validated by TLC"},
            {"name": "rec", "path": "harness/drv_rec.go + spec/Reconciler.tla + spec/trace/RecTrace.tla",
             "serves_properties": ["C14", "C15", "C16"], "kind_free_text": "reconciler under virtual time, monitored by a TLA+ trace specification; algorithm model Reconciler.tla checked by TLC incl. mutants"},
            {"name": "ws", "path": "harness/drv_ws.go + spec/WatchSetProp.tla + spec/WatchSet.tla + spec/trace/WSTrace.tla",
             "serves_properties": ["C20"], "kind_free_text": "WatchSet.Wait scenarios under virtual time validated by TLC"},
        ],
        "checks": checks,
        "not_applicable": na,
        "notes": "All checks: ./vcheck <id> --tier quick|thorough; exit 0/1/2 (2 = machinery error, never a violation). "
                 "VERIF_SEED seeds generators and sampling.",
    }
    with open(os.path.join(HERE, "MANIFEST.json"), "w") as f:
        json.dump(m, f, indent=1)
    print("MANIFEST.json written:", len(checks), "checks,", len(na), "not claimed")

if __name__ == "__main__":
    main()
