#!/bin/bash
cd "$(dirname "$0")/.."
for p in "$@"; do
  out=$(timeout 7200 ./vcheck $p --tier thorough 2>&1); rc=$?
  echo "$p rc=$rc $(echo "$out" | grep -E 'done\]' | sed 's/.*traces/traces/')"
  if [ $rc -ne 0 ]; then echo "$out" | grep -E "VIOLATION|invariant=|MACHINERY|by invariant" | head -6 | cut -c1-300; echo "$out" | tail -5 | cut -c1-300; fi
done
