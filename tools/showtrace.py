#!/usr/bin/env python3
"""showtrace.py <replay.json> [n]: re-run a replay and print the last n events up to the violation."""
import sys, json, os, tempfile, shutil
sys.path.insert(0, '/verif/vlib'); sys.path.insert(0, '/verif/gen')
import core
b = json.load(open(sys.argv[1])); n = int(sys.argv[2]) if len(sys.argv) > 2 else 25
scratch = tempfile.mkdtemp()
env = {"VERIF_FLUSH": "1"} if b["driver"] == "sched" else None
fam = core.Family("x", b["driver"], b["trace_module"], [b["ops"]], env=env)
res = core.run_family(fam, scratch, [""])
lines = open(os.path.join(scratch, "x", b["driver"] + "0.trace.ndjson")).read().splitlines()
for sid, ln, inv, ev, ops in res["bad"]:
    print("VIOLATION", inv, "at line", ln)
    for i in range(max(0, ln - n), ln):
        print(i + 1, lines[i][:int(os.environ.get("W", "260"))])
shutil.rmtree(scratch)
