#!/bin/bash
# usage: VERIF_REPO=<scratch copy of the repository> tools/seed_matrix.sh [name-prefix...]
# Applies every kept seeded change to the scratch repository (never to /repo), runs the quick check of its
# property and prints one line per change.  Meant for `vp run` (snapshot of /verif + its own repository copy).
cd "$(dirname "$0")/.."
R=${VERIF_REPO:?set VERIF_REPO to a scratch copy of the repository}
[ "$R" = "/repo" ] && { echo "refusing to patch /repo"; exit 2; }
for d in seeded/*/; do
  name=$(basename $d)
  if [ $# -gt 0 ]; then ok=0; for p in "$@"; do case $name in $p*) ok=1;; esac; done; [ $ok = 1 ] || continue; fi
  prop=$(python3 -c "import json;print(json.load(open('$d/meta.json'))['property'])")
  if ! git -C $R apply $PWD/$d/patch.diff 2>/dev/null; then echo "$name $prop APPLY-FAILED"; continue; fi
  out=$(timeout 1800 ./vcheck $prop --tier quick 2>&1); rc=$?
  git -C $R checkout -- . 
  echo "$name $prop rc=$rc $(echo "$out" | grep -E 'by invariant' | cut -c1-200) $(echo "$out" | grep -E 'done\]' | sed 's/.*violations/violations/')"
done
