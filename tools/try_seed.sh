#!/bin/bash
# usage: try_seed.sh <patch.diff> <prop> [<prop>...]  -- applies the patch to /repo, runs the quick checks, reverts
P=$1; shift
cd /repo && git status --short | grep -q . && { echo "/repo not clean"; exit 2; }
git -C /repo apply $P || exit 2
cd /verif
for prop in "$@"; do
  echo "== $prop"
  timeout 1500 ./vcheck $prop --tier ${TIER:-quick} 2>&1 | grep -E "by invariant|done\]|MACHINERY|KNOWN" | cut -c1-240
done
git -C /repo checkout -- . ; git -C /repo status --short
