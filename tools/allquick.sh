#!/bin/bash
# runs every quick check with the given seeds; prints one line per (check, seed) that is not clean
cd "$(dirname "$0")/.."
for seed in "$@"; do
  for p in C01 C02 C03 C04 C05 C06 C07 C08 C09 C10 C11 C12 C13 C14 C15 C16 C17 C18 C19 C20; do
    out=$(VERIF_SEED=$seed timeout 1800 ./vcheck $p --tier quick 2>&1); rc=$?
    echo "seed=$seed $p rc=$rc $(echo "$out" | grep -E 'done\]' | sed 's/.*traces/traces/')"
    if [ $rc -ne 0 ]; then echo "$out" | grep -E "VIOLATION|invariant=|MACHINERY" | head -5 | cut -c1-300; fi
  done
done
