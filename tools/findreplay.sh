#!/bin/sh
# usage: findreplay.sh <prop> <invariant>  -> newest replay file with that invariant
for f in $(ls -t /verif/replays/$1-* 2>/dev/null | head -60); do
  if grep -q "\"invariant\":\"$2\"" $f; then echo $f; exit 0; fi
done
