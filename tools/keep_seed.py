#!/usr/bin/env python3
"""keep_seed.py <worktree> <name> <property> <needs> <caught_by_json> : store a confirmed seeded change under /verif/seeded/<name>/"""
import sys, os, shutil, json, subprocess
wt, name, prop, needs, caught = sys.argv[1:6]
dst = os.path.join("/verif/seeded", name)
os.makedirs(dst, exist_ok=True)
shutil.copy(os.path.join(wt, "SEEDED", "patch.diff"), os.path.join(dst, "patch.diff"))
demo = os.path.join(wt, "SEEDED", "zz_seeded_demo_test.go")
if os.path.exists(demo):
    shutil.copy(demo, os.path.join(dst, "zz_seeded_demo_test.go.txt"))
rep = os.path.join(wt, "SEEDED", "REPORT.md")
if os.path.exists(rep):
    shutil.copy(rep, os.path.join(dst, "REPORT.md"))
meta = {"property": prop, "needs_to_manifest": needs,
        "confirmed": "tools/confirm_seed.sh in the scratch worktree: (a) existing suite passes with the change, (b) the demonstration fails with it, (c) passes without it",
        "checks_run": json.loads(caught),
        "base_commit": subprocess.check_output("git -C /repo rev-parse --short HEAD", shell=True, text=True).strip()}
json.dump(meta, open(os.path.join(dst, "meta.json"), "w"), indent=1)
print("kept", dst)
