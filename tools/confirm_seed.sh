#!/bin/bash
# usage: confirm_seed.sh <worktree>   -- confirms (a) suite passes with the change (demo skipped),
# (b) demo fails with the change, (c) demo passes without it.  Works in the scratch worktree only.
WT=$1
export GOFLAGS=-mod=mod GOPROXY=off GOSUMDB=off GOTOOLCHAIN=local
GO=/root/go/pkg/mod/golang.org/toolchain@v0.0.1-go1.25.0.linux-amd64/bin/go
cd $WT || exit 2
DEMO=$(git status --short | grep zz_seeded_demo_test.go | awk '{print $2}' | grep -v SEEDED | head -1)
PKG=./$(dirname $DEMO)
echo "demo: $DEMO pkg: $PKG"
echo "--- (a) existing suite with the change (demo skipped)"
$GO build ./... && $GO test -vet=off -count=1 -timeout 20m -skip 'TestSeededDemo' ./... 2>&1 | grep -v "no test files" | tail -8
echo "--- (b) demo with the change (must FAIL)"
$GO test -vet=off -count=1 -timeout 5m -run 'TestSeededDemo' $PKG 2>&1 | tail -4
echo "--- (c) demo without the change (must pass)"
git diff -- . ':!*zz_seeded_demo_test.go' > /tmp/confirm_patch.diff
git apply -R /tmp/confirm_patch.diff && $GO test -vet=off -count=1 -timeout 5m -run 'TestSeededDemo' $PKG 2>&1 | tail -3
git apply /tmp/confirm_patch.diff
