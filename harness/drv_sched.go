package harness

import (
	"bytes"
	"encoding/json"
	"fmt"
	"os"
	"runtime"
	"strconv"
	"strings"
	"sync"
	"testing"
	"time"

	"github.com/cilium/statedb"
)

// drv_sched: deterministic schedule replay. Actors are goroutines running
// programs of drv_db operations; the verif hooks park every goroutine at every
// protocol step ("gate") until the scheduler releases it. One scheduler step
// = release one actor, wait until it is parked at its next gate, has finished,
// or is blocked on a mutex (goroutine wait reason), then take a probe
// (ReadTxn + full contents of every table + channel bits) and log a "step"
// event. API calls of actors are logged as ordinary drv_db events by the
// actor itself. Validated by spec/trace/SchedTrace.tla.

type schedActorCfg struct {
	Name string            `json:"name"`
	Prog []json.RawMessage `json:"prog"`
}

type schedCfg struct {
	Op       string            `json:"op"`
	Setup    []json.RawMessage `json:"setup"`
	Actors   []schedActorCfg   `json:"actors"`
	Schedule []string          `json:"schedule"`
	Finish   []json.RawMessage `json:"finish"`
	GC       bool              `json:"gc"` // schedule the graveyard collector as actor "GC"
	NilEmpty bool              `json:"nilempty"`
}

const (
	aNotStarted = iota
	aRunning
	aParked
	aBlocked
	aDone
)

type schedActor struct {
	name   string
	prog   []dbOp
	gid    uint64
	state  int
	gate   string        // gate it is parked at
	where  string        // "table" / "root" when blocked
	resume chan struct{} // released by the scheduler
	pc     int           // index of the op being executed
	cur    dbOp
	inCall bool
}

type scheduler struct {
	mu       sync.Mutex
	st       *dbState
	log      *Log
	actors   map[string]*schedActor
	order    []string
	byGid    map[uint64]*schedActor
	mainGid  uint64
	gcGid    uint64
	gc       *schedActor
	parking  bool // hooks park goroutines (off during setup/finish)
	panicked string
	gcAtScan bool // the collector has been seen parked at gc.scanned (logged once per pass)
}

func curGid() uint64 {
	var buf [64]byte
	n := runtime.Stack(buf[:], false)
	// "goroutine 123 [running]:"
	f := bytes.Fields(buf[:n])
	id, _ := strconv.ParseUint(string(f[1]), 10, 64)
	return id
}

type gInfo struct {
	reason string
	stack  string
}

// goroutines returns wait reason and stack text of every goroutine.
var (
	stackBufMu sync.Mutex
	stackBuf   = make([]byte, 1<<18)
)

func goroutines() map[uint64]gInfo {
	stackBufMu.Lock()
	defer stackBufMu.Unlock()
	var buf []byte
	for {
		n := runtime.Stack(stackBuf, true)
		if n < len(stackBuf) {
			buf = stackBuf[:n]
			break
		}
		stackBuf = make([]byte, 2*len(stackBuf))
	}
	out := map[uint64]gInfo{}
	for _, blk := range strings.Split(string(buf), "\n\n") {
		if !strings.HasPrefix(blk, "goroutine ") {
			continue
		}
		nl := strings.IndexByte(blk, '\n')
		head := blk
		if nl >= 0 {
			head = blk[:nl]
		}
		f := strings.Fields(head)
		id, _ := strconv.ParseUint(f[1], 10, 64)
		lb, rb := strings.IndexByte(head, '['), strings.LastIndexByte(head, ']')
		reason := ""
		if lb >= 0 && rb > lb {
			reason = head[lb+1 : rb]
		}
		out[id] = gInfo{reason: reason, stack: blk}
	}
	return out
}

// freeCollectorBusy reports whether the graveyard collector goroutine is running or runnable (i.e. neither idle
// -- select, sleep, channel receive -- nor itself waiting for a mutex).
func freeCollectorBusy() bool {
	for _, gi := range goroutines() {
		if strings.Contains(gi.stack, "statedb.graveyardWorker") {
			return gi.reason == "running" || gi.reason == "runnable"
		}
	}
	return false
}

// harnessLock reports whether the mutex a goroutine waits for was requested by the harness itself (the hook
// function takes the scheduler's mutex, the metrics callbacks take theirs): such a wait lasts a few instructions
// and says nothing about the locks of the library.
func harnessLock(stack string) bool {
	lines := strings.Split(stack, "\n")
	for i := 1; i < len(lines); i++ {
		f := lines[i]
		if strings.HasPrefix(f, "\t") || f == "" {
			continue // file:line of the frame above
		}
		if strings.HasPrefix(f, "sync.") || strings.HasPrefix(f, "internal/") || strings.HasPrefix(f, "runtime.") {
			continue
		}
		return strings.Contains(f, "/harness.") || strings.HasPrefix(f, "harness.")
	}
	return false
}

func isMutexWait(reason string) bool {
	return strings.HasPrefix(reason, "sync.Mutex.Lock") || strings.HasPrefix(reason, "semacquire") ||
		strings.HasPrefix(reason, "sync.RWMutex")
}

// hook is installed with statedb.VerifSetHook.
func (s *scheduler) hook(point string) {
	if !s.parking {
		return
	}
	gid := curGid()
	if gid == s.mainGid {
		return
	}
	s.mu.Lock()
	a := s.byGid[gid]
	if a == nil {
		if s.gc != nil && (gid == s.gcGid || s.gcGid == 0 && strings.HasPrefix(point, "gc.")) {
			s.gcGid = gid
			s.gc.gid = gid
			s.byGid[gid] = s.gc
			a = s.gc
		} else {
			s.mu.Unlock()
			return // a goroutine the scheduler does not control (e.g. collector when not scheduled)
		}
	}
	a.state = aParked
	a.gate = point
	s.mu.Unlock()
	<-a.resume
}

func (s *scheduler) runActor(a *schedActor) {
	a.gid = curGid()
	s.mu.Lock()
	s.byGid[a.gid] = a
	s.mu.Unlock()
	defer func() {
		if r := recover(); r != nil {
			s.mu.Lock()
			s.panicked = fmt.Sprintf("%v", r)
			s.log.Emit(Ev{"op": "panic", "during": a.cur.Op, "msg": fmt.Sprintf("%v", r), "ctx": "actor:" + a.name})
			a.state = aDone
			s.mu.Unlock()
			return
		}
		s.mu.Lock()
		a.state = aDone
		s.mu.Unlock()
	}()
	// the first gate of an actor is its own start
	s.mu.Lock()
	a.state = aParked
	a.gate = "start"
	s.mu.Unlock()
	<-a.resume
	for i, op := range a.prog {
		s.mu.Lock()
		a.pc, a.cur, a.inCall = i, op, true
		if op.Op == "abort" {
			// Abort is a decision: from the call on the transaction's writes are void and its locks may be
			// released at any step, so the event is logged when the call starts
			s.log.Emit(Ev{"op": "abort", "tx": op.Tx, "actor": a.name})
		}
		s.mu.Unlock()
		ev := s.st.exec(op)
		s.mu.Lock()
		a.inCall = false
		if op.Op != "abort" {
			ev["actor"] = a.name
			s.log.Emit(ev)
		}
		s.mu.Unlock()
	}
}

// settle waits until actor a is parked, done or blocked on a mutex; it also notices other actors
// that were blocked and have moved on. Returns the list of actors (other than a) that moved.
func (s *scheduler) settle(a *schedActor) []map[string]any {
	deadline := time.Now().Add(20 * time.Second)
	spins := 0
	for {
		s.mu.Lock()
		st := a.state
		s.mu.Unlock()
		if st == aParked || st == aDone {
			break
		}
		spins++
		if spins < 200 {
			runtime.Gosched()
			continue
		}
		gi := goroutines()[a.gid]
		if a == s.gc && (gi.reason == "" || strings.HasPrefix(gi.reason, "select") || strings.HasPrefix(gi.reason, "sleep")) {
			break // the collector finished its pass and waits for the next trigger (or exited: DB.Stop)
		}
		if isMutexWait(gi.reason) && harnessLock(gi.stack) && time.Now().Before(deadline) {
			// waiting for a mutex of the harness (taken inside a hook or a metrics callback): not settled yet
			time.Sleep(20 * time.Microsecond)
			continue
		}
		if isMutexWait(gi.reason) && s.gc == nil && freeCollectorBusy() && time.Now().Before(deadline) {
			// the collector is not an actor of this script and is in the middle of a pass (it holds a table lock
			// for a few instructions): the actor is waiting for it, not for a parked actor
			time.Sleep(50 * time.Microsecond)
			continue
		}
		if isMutexWait(gi.reason) {
			s.mu.Lock()
			if a.state == aRunning {
				a.state = aBlocked
				if strings.Contains(gi.stack, "SortableMutexes") || strings.Contains(gi.stack, "sortableMutex") {
					a.where = "table"
				} else {
					a.where = "root"
				}
			}
			s.mu.Unlock()
			break
		}
		if time.Now().After(deadline) {
			s.mu.Lock()
			a.state = aBlocked
			a.where = "unknown:" + gi.reason
			s.mu.Unlock()
			break
		}
		if spins == 2000 && os.Getenv("VERIF_SCHED_DEBUG") != "" {
			fmt.Fprintf(os.Stderr, "settle: actor %s state=%d gid=%d reason=%q gate=%s\n%s\n", a.name, a.state, a.gid, gi.reason, a.gate, gi.stack)
		}
		time.Sleep(50 * time.Microsecond)
	}
	// other actors: blocked ones may have been unblocked by this step; give them time to reach
	// their next gate (they hit one right after acquiring the mutex)
	moved := []map[string]any{}
	for _, name := range s.allNames() {
		b := s.actors[name]
		if b == nil && name == "GC" {
			b = s.gc
		}
		if b == nil || b == a {
			continue
		}
		s.mu.Lock()
		st := b.state
		s.mu.Unlock()
		if st != aBlocked && !(b == s.gc && st == aRunning) {
			continue
		}
		// wait until it is parked, still blocked on a mutex, or (collector) idle
		for k := 0; ; k++ {
			s.mu.Lock()
			st = b.state
			s.mu.Unlock()
			if st == aParked || st == aDone {
				moved = append(moved, map[string]any{"actor": b.name, "to": s.where(b)})
				break
			}
			if b.gid != 0 {
				gi := goroutines()[b.gid]
				if isMutexWait(gi.reason) && !harnessLock(gi.stack) {
					break // still blocked
				}
				if b == s.gc && (gi.reason == "" || strings.HasPrefix(gi.reason, "select") || strings.HasPrefix(gi.reason, "sleep") || strings.HasPrefix(gi.reason, "chan receive")) {
					break // collector idle (waiting for a trigger or for its rate limiter) or gone (DB.Stop)
				}
			} else if b == s.gc {
				break
			}
			if k > 200000 {
				break
			}
			if k == 50 && os.Getenv("VERIF_SCHED_DEBUG") != "" {
				fmt.Fprintf(os.Stderr, "settle: waiting for %s state=%d gid=%d reason=%q\n", b.name, st, b.gid, goroutines()[b.gid].reason)
			}
			time.Sleep(20 * time.Microsecond)
		}
	}
	return moved
}

// noteGCScan logs (once per collection pass) that the collector finished its lock-free scan: from now on it
// may lock the tables in which it found something to collect.
func (s *scheduler) noteGCScan() {
	if s.gc == nil {
		return
	}
	s.mu.Lock()
	// in the middle of a pass: parked at any gate but gc.committed, or blocked on a mutex
	midpass := (s.gc.state == aParked && s.gc.gate != "gc.committed") || s.gc.state == aBlocked
	if midpass && !s.gcAtScan {
		s.gcAtScan = true
		s.log.Emit(Ev{"op": "gcscan"})
	} else if !midpass {
		s.gcAtScan = false
	}
	s.mu.Unlock()
}

func (s *scheduler) allNames() []string {
	out := append([]string{}, s.order...)
	if s.gc != nil {
		out = append(out, "GC")
	}
	return out
}

func (s *scheduler) where(a *schedActor) string {
	s.mu.Lock()
	defer s.mu.Unlock()
	switch a.state {
	case aParked:
		return a.gate
	case aDone:
		return "done"
	case aBlocked:
		return "blocked"
	case aNotStarted:
		return "notstarted"
	}
	return "running"
}

// probe reads the committed state like any reader would (must never block).
func (s *scheduler) probe() (map[string]any, bool) {
	type res struct{ m map[string]any }
	ch := make(chan res, 1)
	go func() {
		rt := s.st.db.ReadTxn()
		metas := s.st.db.GetTables(rt)
		tabs := []map[string]any{}
		for i := 0; i < len(metas); i++ {
			s.st.mu.Lock()
			dt := s.st.tables[i]
			s.st.mu.Unlock()
			if dt == nil {
				continue
			}
			rows := [][]any{}
			for o, rev := range dt.tbl.All(rt) {
				rows = append(rows, row(o, rev))
			}
			initd, _ := dt.tbl.Initialized(rt)
			pend := dt.tbl.PendingInitializers(rt)
			if pend == nil {
				pend = []string{}
			}
			tabs = append(tabs, map[string]any{"t": i, "rev": int(dt.tbl.Revision(rt)), "rows": rows,
				"num": dt.tbl.NumObjects(rt), "init": initd, "pend": pend,
				"grave": statedb.VerifGraveyardLen(rt, dt.tbl)})
		}
		ch <- res{map[string]any{"ntables": len(metas), "tables": tabs}}
	}()
	select {
	case r := <-ch:
		return r.m, true
	case <-time.After(10 * time.Second):
		return map[string]any{"ntables": 0, "tables": []map[string]any{}}, false
	}
}

func (s *scheduler) lifecycles() []map[string]any {
	out := []map[string]any{}
	for _, name := range s.order {
		a := s.actors[name]
		s.mu.Lock()
		st, cur, in := a.state, a.cur, a.inCall
		gate := a.gate
		s.mu.Unlock()
		if st == aNotStarted || st == aDone || !in {
			continue
		}
		tabs := []int{}
		switch cur.Op {
		case "wtxn":
			tabs = cur.Tables
		case "commit", "abort":
			s.st.mu.Lock()
			for t, x := range s.st.held {
				if x == cur.Tx {
					tabs = append(tabs, t)
				}
			}
			s.st.mu.Unlock()
		case "iterclose":
			s.st.mu.Lock()
			if di, ok := s.st.iters[cur.It]; ok {
				tabs = []int{di.t}
			}
			s.st.mu.Unlock()
		case "newtable":
		default:
			continue
		}
		g := ""
		if st == aParked {
			g = gate
		}
		out = append(out, map[string]any{"actor": name, "call": cur.Op, "tx": cur.Tx, "tables": ints(tabs), "gate": g})
	}
	// open transactions between calls (the actor holds its tables while it runs its operations)
	s.st.mu.Lock()
	for tx := range s.st.open {
		found := false
		for _, m := range out {
			if m["tx"] == tx && (m["call"] == "wtxn" || m["call"] == "commit" || m["call"] == "abort") {
				found = true
			}
		}
		if !found {
			tabs := []int{}
			for t, x := range s.st.held {
				if x == tx {
					tabs = append(tabs, t)
				}
			}
			out = append(out, map[string]any{"actor": "", "call": "open", "tx": tx, "tables": ints(tabs), "gate": ""})
		}
	}
	s.st.mu.Unlock()
	if s.gc != nil {
		s.mu.Lock()
		st, gate := s.gc.state, s.gc.gate
		s.mu.Unlock()
		if st == aParked || st == aBlocked {
			g := ""
			if st == aParked {
				g = gate
			}
			if !(st == aParked && (gate == "gc.scanned" || gate == "gc.committed")) {
				out = append(out, map[string]any{"actor": "GC", "call": "gc", "tx": 0, "tables": []int{-1}, "gate": g})
			}
		}
	}
	return out
}

func (s *scheduler) closedList() []int {
	s.st.mu.Lock()
	defer s.st.mu.Unlock()
	closed := []int{}
	for _, id := range s.st.order {
		if isClosed(s.st.chans[id]) {
			closed = append(closed, id)
		}
	}
	return closed
}

// step releases one actor and logs what happened.
func (s *scheduler) step(name string) bool {
	var a *schedActor
	if name == "GC" {
		a = s.gc
	} else {
		a = s.actors[name]
	}
	if a == nil {
		return false
	}
	s.mu.Lock()
	st := a.state
	from := a.gate
	s.mu.Unlock()
	switch st {
	case aDone:
		return false
	case aNotStarted:
		if a == s.gc {
			return false
		}
		s.mu.Lock()
		a.state = aRunning
		s.mu.Unlock()
		go s.runActor(a)
		s.settle(a) // parks at "start"
		s.mu.Lock()
		a.state = aRunning
		from = "start"
		s.mu.Unlock()
		a.resume <- struct{}{}
	case aParked:
		s.mu.Lock()
		a.state = aRunning
		s.mu.Unlock()
		a.resume <- struct{}{}
	case aBlocked:
		from = "blocked"
	case aRunning:
		// only the collector can be "running" without having been released by us: it is idle
		return false
	}
	moved := s.settle(a)
	s.noteGCScan()
	probe, ok := s.probe()
	to := s.where(a)
	closed, life := s.closedList(), s.lifecycles()
	s.mu.Lock()
	where := ""
	if a.state == aBlocked {
		where = a.where
	}
	ev := Ev{"op": "step", "actor": name, "from": from, "to": to, "where": where, "moved": moved,
		"probe": probe, "probeok": ok, "closed": closed, "life": life,
		"call": a.cur.Op, "tx": a.cur.Tx}
	s.log.Emit(ev)
	p := s.panicked
	s.mu.Unlock()
	return ok && p == "" && !(from == "blocked" && to == "blocked")
}

func runSchedScript(t *testing.T, sc Script, log *Log, next int) {
	var cfg schedCfg
	if err := json.Unmarshal(sc.Ops[0], &cfg); err != nil {
		panic(err)
	}
	st := &dbState{
		metrics: &dbMetrics{grave: map[string]int{}, trk: map[string]int{}},
		tables:  map[int]*dbTable{}, wtxns: map[int]statedb.WriteTxn{}, snaps: map[int]statedb.ReadTxn{},
		chans: map[int]<-chan struct{}{}, iters: map[int]*dbIter{}, obs: map[int]*dbObserver{}, dones: map[string]func(statedb.WriteTxn){},
		open: map[int]bool{}, held: map[int]int{}, concurrent: true, nilEmpty: cfg.NilEmpty,
	}
	st.db = statedb.New(statedb.WithMetrics(st.metrics))
	statedb.VerifSetGCRateLimitInterval(st.db, time.Millisecond)
	s := &scheduler{st: st, log: log, actors: map[string]*schedActor{}, byGid: map[uint64]*schedActor{}, mainGid: curGid()}
	if cfg.GC {
		s.gc = &schedActor{name: "GC", resume: make(chan struct{}), state: aRunning}
	}
	statedb.VerifSetHook(s.hook)
	defer statedb.VerifSetHook(nil)
	st.db.Start()
	if s.gc != nil {
		// identify the collector goroutine up front so that every hook it hits is attributed to it
		for i := 0; i < 1000 && s.gcGid == 0; i++ {
			for gid, gi := range goroutines() {
				if strings.Contains(gi.stack, "statedb.graveyardWorker") {
					s.gcGid = gid
					s.gc.gid = gid
					s.byGid[gid] = s.gc
				}
			}
			if s.gcGid == 0 {
				time.Sleep(100 * time.Microsecond)
			}
		}
	}
	log.Begin()
	log.Emit(Ev{"op": "nop", "what": "sched"})
	fail := func(during, msg string) {
		log.Emit(Ev{"op": "panic", "during": during, "msg": msg, "ctx": "sched"})
		log.End(sc.ID)
		ExitAfterPanic(log, next)
	}
	seq := func(ops []json.RawMessage, phase string) {
		for _, raw := range ops {
			var op dbOp
			if err := json.Unmarshal(raw, &op); err != nil {
				panic(err)
			}
			var ev Ev
			msg, panicked := protect(func() { ev = st.exec(op) })
			if panicked {
				fail(op.Op, msg)
			}
			ev["actor"] = phase
			log.Emit(ev)
		}
	}
	seq(cfg.Setup, "setup")
	for _, ac := range cfg.Actors {
		a := &schedActor{name: ac.Name, resume: make(chan struct{})}
		for _, raw := range ac.Prog {
			var op dbOp
			if err := json.Unmarshal(raw, &op); err != nil {
				panic(err)
			}
			a.prog = append(a.prog, op)
		}
		s.actors[ac.Name] = a
		s.order = append(s.order, ac.Name)
	}
	s.parking = true
	if s.gc != nil {
		// wait for a pending collection (triggered during setup) to arrive at its first gate or go idle
		time.Sleep(5 * time.Millisecond)
		s.settle(&schedActor{state: aDone})
		s.noteGCScan()
	}
	bad := false
	for _, name := range cfg.Schedule {
		s.step(name)
		s.mu.Lock()
		p := s.panicked
		s.mu.Unlock()
		if p != "" {
			bad = true
			break
		}
	}
	// drain: run everything to completion
	if !bad {
		for round := 0; round < 10000; round++ {
			progress, alldone := false, true
			for _, name := range s.allNames() {
				var a *schedActor
				if name == "GC" {
					a = s.gc
				} else {
					a = s.actors[name]
				}
				s.mu.Lock()
				st0 := a.state
				s.mu.Unlock()
				if st0 == aDone || (a == s.gc && st0 == aRunning) {
					continue
				}
				if a != s.gc {
					alldone = false
				}
				if s.step(name) {
					progress = true
				}
				s.mu.Lock()
				p := s.panicked
				s.mu.Unlock()
				if p != "" {
					bad = true
				}
			}
			if alldone || bad {
				break
			}
			if !progress {
				// nobody can move: deadlock
				names := []string{}
				for _, name := range s.order {
					if s.where(s.actors[name]) != "done" {
						names = append(names, name)
					}
				}
				log.Emit(Ev{"op": "deadlock", "actors": names, "life": s.lifecycles()})
				bad = true
				break
			}
		}
	}
	if bad {
		log.End(sc.ID)
		ExitAfterPanic(log, next)
	}
	s.parking = false
	// let a parked collector go
	if s.gc != nil {
		for i := 0; i < 50; i++ {
			s.mu.Lock()
			stg := s.gc.state
			if stg == aParked {
				s.gc.state = aRunning
			}
			s.mu.Unlock()
			if stg == aParked {
				s.gc.resume <- struct{}{}
			}
			time.Sleep(time.Millisecond)
		}
	}
	seq(cfg.Finish, "finish")
	log.End(sc.ID)
	_, bad2 := protect(func() {
		for _, w := range st.wtxns {
			w.Abort()
		}
		for _, di := range st.iters {
			di.it.Close()
		}
	})
	if bad2 {
		ExitAfterPanic(log, next)
	}
	st.db.Stop()
}

func init() {
	drivers["sched"] = func(t *testing.T, scripts []Script, from int, log *Log) {
		if os.Getenv("VERIF_SCHED_DEBUG") != "" {
			fmt.Fprintln(os.Stderr, "sched driver")
		}
		for i := from; i < len(scripts); i++ {
			runSchedScript(t, scripts[i], log, i+1)
		}
	}
}
