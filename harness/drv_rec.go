package harness

import (
	"context"
	"encoding/json"
	"errors"
	"fmt"
	"iter"
	"log/slog"
	"runtime"
	"sort"
	"strings"
	"sync"
	"testing"
	"testing/synctest"
	"time"

	"github.com/cilium/hive"
	"github.com/cilium/hive/cell"
	"github.com/cilium/hive/hivetest"
	"github.com/cilium/hive/job"
	"github.com/cilium/statedb"
	"github.com/cilium/statedb/index"
	"github.com/cilium/statedb/reconciler"
	"golang.org/x/time/rate"
)

// drv_rec drives the reconciler under virtual time (testing/synctest): user
// writes, per-call failure patterns, writes injected from inside Update (the
// window between an operation and its status commit), WaitUntilReconciled
// probes. Every commit to the reconciled table is observed at its
// linearization point (verif hook commit.stored) and logged with the complete
// list of changed objects. Validated by spec/trace/RecTrace.tla.

type recObj struct {
	ID     uint64
	Ver    int // content version, bumped by every user write
	Other  int // a field owned by "another reconciler": changes without a new pending id
	Status reconciler.Status
	// Set is used instead of Status when the script asks for reconciler.StatusSet objects
	// (several reconcilers per object; ours is named "verif")
	Set    reconciler.StatusSet
	UseSet bool
}

func (o *recObj) status() reconciler.Status {
	if o.UseSet {
		return o.Set.Get("verif")
	}
	return o.Status
}

// names is a digest of the statuses the OTHER reconcilers of a StatusSet object have written ("" without a set)
func (o *recObj) names() string {
	if !o.UseSet {
		return ""
	}
	all := o.Set.All()
	ks := []string{}
	for n := range all {
		if n != "verif" {
			ks = append(ks, n)
		}
	}
	sort.Strings(ks)
	var b strings.Builder
	for _, n := range ks {
		b.WriteString(n + ":" + kindOf(all[n]) + " ")
	}
	return b.String()
}

func (o *recObj) TableHeader() []string { return []string{"ID", "Ver", "Status"} }
func (o *recObj) TableRow() []string {
	return []string{fmt.Sprint(o.ID), fmt.Sprint(o.Ver), o.Status.String()}
}
func (o *recObj) Clone() *recObj { o2 := *o; return &o2 }

var recIDIndex = statedb.Index[*recObj, uint64]{
	Name:       "id",
	FromObject: func(o *recObj) index.KeySet { return index.NewKeySet(index.Uint64(o.ID)) },
	FromKey:    index.Uint64,
	Unique:     true,
}

type recOp struct {
	Op      string `json:"op"`
	Round   int    `json:"round"`
	Batch   bool   `json:"batch"`
	MinB    int    `json:"minb"`
	MaxB    int    `json:"maxb"`
	LimitMs int    `json:"limit_ms"`
	PruneMs int    `json:"prune_ms"`
	// RefreshMs > 0 enables the refresh loop: objects Done for that long are marked Refreshing and updated again
	RefreshMs int `json:"refresh_ms"`
	Kind    string `json:"kind"`
	K       int    `json:"k"`
	N       int    `json:"n"`
	On      string `json:"on"`
	Nth     int    `json:"nth"`
	Do      string `json:"do"`
	Ms      int    `json:"ms"`
	Back    int    `json:"back"` // wait: revision = current table revision - back
	Q       bool   `json:"q"`
	Idle    bool   `json:"idle"`
	UseSet  bool   `json:"statusset"`
	// SetNames: number of other reconcilers that have already written their status into a new StatusSet object
	SetNames int `json:"setnames"`
}

type recUserWrite struct {
	kind string
	k    int
	ver  int
}

type recInject struct {
	nth int
	do  string
}

type recState struct {
	mu      sync.Mutex
	log     *Log
	start   time.Time
	db      *statedb.DB
	table   statedb.RWTable[*recObj]
	r       reconciler.Reconciler[*recObj]
	target  map[uint64]int
	failQ   map[string]int // "update/1" -> remaining failures
	inject  map[string][]recInject
	ncalls  map[string]int
	verCtr  int
	// userG: the user writes being committed, by committing goroutine (a commit is attributed at its linearization
	// point, inside the hook, which runs on the committing goroutine: a flag shared between goroutines would be
	// read by a reconciler commit that slips in between a user's Commit and the reset of the flag).  Guarded by cmu.
	userG map[uint64]recUserWrite
	lastRev statedb.Revision
	known   map[uint64]*recObj
	initFn  func(statedb.WriteTxn)
	waits   sync.WaitGroup
	useSet  bool
	setNames int
	// cmu guards failQ, inject, ncalls and target: the script goroutine and the reconciler's operations
	// run concurrently inside the bubble
	cmu sync.Mutex
	// refreshInj: user writes (do, key in nth) to perform when the refresh loop next calls WriteTxn
	refreshInj []recInject
	injecting  bool
	// commitMu: see emit
	commitMu sync.RWMutex
}

func (st *recState) now() int { return int(time.Since(st.start) / time.Millisecond) }

// emit logs an event.  A commit is logged by the committing goroutine between the hooks commit.rootlocked and
// commit.stored while it holds commitMu: a goroutine that has already read the new root (readers do not take the
// root mutex) therefore cannot log anything before the commit it has seen is in the log.
func (st *recState) emit(ev Ev) {
	st.commitMu.RLock()
	st.mu.Lock()
	st.log.Emit(ev)
	st.mu.Unlock()
	st.commitMu.RUnlock()
}

func kindOf(s reconciler.Status) string { return s.Kind.String() }

// pendingObj builds the object a user writes: a new content version, marked pending
func (st *recState) pendingObj(id uint64, ver int, old *recObj) *recObj {
	if !st.useSet {
		return &recObj{ID: id, Ver: ver, Status: reconciler.StatusPending()}
	}
	set := reconciler.NewStatusSet()
	if old != nil {
		set = old.Set.Pending()
	} else {
		// the reconcilers that got to the object before ours (the slice behind the set grows 1, 2, 4: three
		// names leave a spare slot)
		for i := 0; i < st.setNames; i++ {
			set = set.Set(string(rune('x'+i)), reconciler.StatusDone())
		}
	}
	return &recObj{ID: id, Ver: ver, Set: set, UseSet: true}
}

// onCommit runs at the linearization point of every commit (hook commit.stored, root mutex held).
// inRefreshLoop reports whether the calling goroutine is the reconciler's refresh loop.
func inRefreshLoop() bool {
	pcs := make([]uintptr, 24)
	n := runtime.Callers(2, pcs)
	frames := runtime.CallersFrames(pcs[:n])
	for {
		f, more := frames.Next()
		if strings.Contains(f.Function, "refreshLoop") {
			return true
		}
		if !more {
			return false
		}
	}
}

func (st *recState) onCommit(point string) {
	if point == "wtxn.begin" {
		// a user write queued for "the moment the refresh loop asks for the table": it is committed before the
		// refresh loop gets the lock, i.e. after any decision the loop took without the lock
		st.cmu.Lock()
		var inj *recInject
		if len(st.refreshInj) > 0 && !st.injecting && inRefreshLoop() {
			inj = &st.refreshInj[0]
			st.refreshInj = st.refreshInj[1:]
			st.injecting = true
		}
		st.cmu.Unlock()
		if inj != nil {
			st.userWrite(inj.do, inj.nth)
			st.cmu.Lock()
			st.injecting = false
			st.cmu.Unlock()
		}
		return
	}
	if point == "commit.rootlocked" {
		st.commitMu.Lock()
		return
	}
	if point != "commit.stored" {
		return
	}
	defer st.commitMu.Unlock()
	if st.table == nil {
		return
	}
	rt := st.db.ReadTxn()
	rev := st.table.Revision(rt)
	if rev == st.lastRev {
		return
	}
	changes := []map[string]any{}
	seen := map[uint64]bool{}
	cur := map[uint64]*recObj{}
	for o := range st.table.All(rt) {
		cur[o.ID] = o
	}
	for o, orev := range st.table.LowerBound(rt, statedb.ByRevision[*recObj](st.lastRev+1)) {
		seen[o.ID] = true
		changes = append(changes, map[string]any{"k": int(o.ID), "ver": o.Ver, "other": o.Other, "kind": kindOf(o.status()),
			"sid": int(o.status().ID), "rev": int(orev), "del": false, "names": o.names()})
	}
	ids := []int{}
	for id := range st.known {
		if _, ok := cur[id]; !ok {
			ids = append(ids, int(id))
		}
	}
	sort.Ints(ids)
	for _, id := range ids {
		o := st.known[uint64(id)]
		changes = append(changes, map[string]any{"k": id, "ver": o.Ver, "other": o.Other, "kind": kindOf(o.status()),
			"sid": int(o.status().ID), "rev": 0, "del": true, "names": ""})
	}
	st.known = cur
	st.lastRev = rev
	by := "rec"
	st.cmu.Lock()
	uw, byUser := st.userG[curGid()]
	st.cmu.Unlock()
	if byUser {
		by = "user"
	}
	// the complete table as it reads now: committed objects are immutable, so it is what the commits so far put there
	all := [][]any{}
	for o, orev := range st.table.All(rt) {
		all = append(all, []any{int(o.ID), o.Ver, kindOf(o.status()), int(orev), o.names()})
	}
	init, _ := st.table.Initialized(rt)
	// (commitMu is held by this goroutine: log directly)
	st.mu.Lock()
	ev := Ev{"op": "commit", "by": by, "t": st.now(), "rev": int(rev), "changes": changes, "init": init, "all": all,
		"ukind": "", "uk": 0, "uver": 0}
	if byUser {
		ev["ukind"], ev["uk"], ev["uver"] = uw.kind, uw.k, uw.ver
	}
	st.log.Emit(ev)
	st.mu.Unlock()
}

// userWrite performs a user write; it may be called from the driver goroutine or from inside Update.
func (st *recState) userWrite(kind string, k int) {
	wtxn := st.db.WriteTxn(st.table)
	id := uint64(k)
	old, _, found := st.table.Get(wtxn, recIDIndex.Query(id))
	ver := 0
	switch kind {
	case "upsert":
		st.verCtr++
		ver = st.verCtr
		if found {
			st.table.Insert(wtxn, st.pendingObj(id, ver, old))
		} else {
			st.table.Insert(wtxn, st.pendingObj(id, ver, nil))
		}
	case "delete":
		if found {
			ver = old.Ver
			st.table.Delete(wtxn, old)
		}
	case "reinsert":
		if found {
			st.table.Delete(wtxn, old)
		}
		st.verCtr++
		ver = st.verCtr
		st.table.Insert(wtxn, st.pendingObj(id, ver, nil))
	case "status2":
		// another reconciler writes its own status: the object changes, the pending id does not
		if found {
			o := old.Clone()
			o.Other++
			if o.UseSet {
				// ... through the shared StatusSet, as a second reconciler's SetObjectStatus does
				s2 := reconciler.StatusDone()
				if o.Other%3 == 0 {
					s2 = reconciler.StatusError(errors.New("other"))
				}
				o.Set = o.Set.Set(fmt.Sprintf("o%d", o.Other%2), s2)
			}
			ver = o.Ver
			st.table.Insert(wtxn, o)
		}
	}
	rev := st.table.Revision(wtxn)
	st.emit(Ev{"op": "user", "kind": kind, "k": k, "ver": ver, "found": found, "rev": int(rev), "t": st.now()})
	gid := curGid()
	st.cmu.Lock()
	st.userG[gid] = recUserWrite{kind, k, ver}
	st.cmu.Unlock()
	wtxn.Commit()
	st.cmu.Lock()
	delete(st.userG, gid)
	st.cmu.Unlock()
}

func (st *recState) outcome(on string, k uint64) (fail bool, inj *recInject) {
	key := fmt.Sprintf("%s/%d", on, k)
	st.cmu.Lock()
	defer st.cmu.Unlock()
	st.ncalls[key]++
	if st.failQ[key] > 0 {
		st.failQ[key]--
		fail = true
	}
	for _, in := range st.inject[key] {
		if in.nth == st.ncalls[key] {
			c := in
			inj = &c
		}
	}
	return
}

type recOps struct{ st *recState }

func (o *recOps) doUpdate(txn statedb.ReadTxn, rev statedb.Revision, obj *recObj, batch bool) error {
	st := o.st
	fail, inj := st.outcome("update", obj.ID)
	st.emit(Ev{"op": "call", "kind": "update", "k": int(obj.ID), "ver": obj.Ver, "rev": int(rev), "fail": fail,
		"t": st.now(), "batch": batch, "trev": int(st.table.Revision(txn)), "skind": kindOf(obj.status()), "arg": [][]int{}})
	if !fail {
		st.cmu.Lock()
		st.target[obj.ID] = obj.Ver
		st.cmu.Unlock()
	}
	if inj != nil {
		st.userWrite(inj.do, int(obj.ID))
	}
	if fail {
		return errors.New("injected failure")
	}
	return nil
}

func (o *recOps) doDelete(txn statedb.ReadTxn, rev statedb.Revision, obj *recObj, batch bool) error {
	st := o.st
	fail, inj := st.outcome("delete", obj.ID)
	st.emit(Ev{"op": "call", "kind": "delete", "k": int(obj.ID), "ver": obj.Ver, "rev": int(rev), "fail": fail,
		"t": st.now(), "batch": batch, "trev": int(st.table.Revision(txn)), "skind": kindOf(obj.status()), "arg": [][]int{}})
	if !fail {
		st.cmu.Lock()
		delete(st.target, obj.ID)
		st.cmu.Unlock()
	}
	if inj != nil {
		st.userWrite(inj.do, int(obj.ID))
	}
	if fail {
		return errors.New("injected failure")
	}
	return nil
}

func (o *recOps) Update(ctx context.Context, txn statedb.ReadTxn, rev statedb.Revision, obj *recObj) error {
	return o.doUpdate(txn, rev, obj, false)
}
func (o *recOps) Delete(ctx context.Context, txn statedb.ReadTxn, rev statedb.Revision, obj *recObj) error {
	return o.doDelete(txn, rev, obj, false)
}
func (o *recOps) Prune(ctx context.Context, txn statedb.ReadTxn, objs iter.Seq2[*recObj, statedb.Revision]) error {
	st := o.st
	arg := [][]int{}
	keep := map[uint64]bool{}
	for obj := range objs {
		arg = append(arg, []int{int(obj.ID), obj.Ver})
		keep[obj.ID] = true
	}
	init, _ := st.table.Initialized(txn)
	st.emit(Ev{"op": "call", "kind": "prune", "k": 0, "ver": 0, "rev": 0, "fail": false, "t": st.now(), "batch": false,
		"trev": int(st.table.Revision(txn)), "skind": fmt.Sprint(init), "arg": arg})
	st.cmu.Lock()
	for k := range st.target {
		if !keep[k] {
			delete(st.target, k)
		}
	}
	st.cmu.Unlock()
	return nil
}

type recBatchOps struct{ o *recOps }

func (b *recBatchOps) UpdateBatch(ctx context.Context, txn statedb.ReadTxn, batch []reconciler.BatchEntry[*recObj]) {
	for i := range batch {
		batch[i].Result = b.o.doUpdate(txn, batch[i].Revision, batch[i].Object, true)
	}
}
func (b *recBatchOps) DeleteBatch(ctx context.Context, txn statedb.ReadTxn, batch []reconciler.BatchEntry[*recObj]) {
	for i := range batch {
		batch[i].Result = b.o.doDelete(txn, batch[i].Revision, batch[i].Object, true)
	}
}

func runRecScript(t *testing.T, sc Script, log *Log) {
	synctest.Test(t, func(t *testing.T) {
		var cfg recOp
		if err := json.Unmarshal(sc.Ops[0], &cfg); err != nil {
			panic(err)
		}
		st := &recState{log: log, start: time.Now(), target: map[uint64]int{}, failQ: map[string]int{},
			inject: map[string][]recInject{}, ncalls: map[string]int{}, known: map[uint64]*recObj{}, useSet: cfg.UseSet, setNames: cfg.SetNames,
			userG: map[uint64]recUserWrite{}}
		ops := &recOps{st}
		var batchOps reconciler.BatchOperations[*recObj]
		if cfg.Batch {
			batchOps = &recBatchOps{ops}
		}
		opts := []reconciler.Option{
			reconciler.WithRetry(time.Duration(cfg.MinB)*time.Millisecond, time.Duration(cfg.MaxB)*time.Millisecond),
			reconciler.WithRefreshing(time.Duration(cfg.RefreshMs)*time.Millisecond, nil),
			reconciler.WithRoundLimits(cfg.Round, rate.NewLimiter(rate.Every(time.Duration(cfg.LimitMs)*time.Millisecond), 1)),
		}
		if cfg.PruneMs > 0 {
			opts = append(opts, reconciler.WithPruning(time.Duration(cfg.PruneMs)*time.Millisecond))
		} else {
			opts = append(opts, reconciler.WithoutPruning())
		}
		h := hive.New(
			statedb.Cell,
			job.Cell,
			cell.Provide(
				cell.NewSimpleHealth,
				reconciler.NewExpVarMetrics,
				func(r job.Registry, h cell.Health) job.Group { return r.NewGroup(h) },
			),
			cell.Invoke(func(db *statedb.DB) (err error) {
				st.db = db
				st.table, err = statedb.NewTable(db, "rec-objects", recIDIndex)
				if err != nil {
					return err
				}
				wtxn := db.WriteTxn(st.table)
				st.initFn = st.table.RegisterInitializer(wtxn, "verif")
				wtxn.Commit()
				return nil
			}),
			cell.Module("verif", "verif",
				cell.Invoke(func(params reconciler.Params) error {
					var err error
					st.r, err = reconciler.Register(params, st.table, (*recObj).Clone,
						func(o *recObj, s reconciler.Status) *recObj {
							if o.UseSet {
								o.Set = o.Set.Set("verif", s)
							} else {
								o.Status = s
							}
							return o
						},
						func(o *recObj) reconciler.Status { return o.status() },
						ops, batchOps, opts...)
					return err
				}),
			),
		)
		statedb.VerifSetHook(st.onCommit)
		defer statedb.VerifSetHook(nil)
		hlog := hivetest.Logger(t, hivetest.LogLevel(slog.LevelError))
		if err := h.Start(hlog, context.TODO()); err != nil {
			panic(err)
		}
		// let the reconciler job start (it registers its change iterator first): user writes made
		// before that are outside its contract
		time.Sleep(time.Millisecond)
		synctest.Wait()
		st.start = time.Now()
		log.Begin()
		st.emit(Ev{"op": "config", "round": cfg.Round, "batch": cfg.Batch, "minb": cfg.MinB, "maxb": cfg.MaxB,
			"limit": cfg.LimitMs, "prune": cfg.PruneMs, "idle": cfg.Idle, "refresh": cfg.RefreshMs})
		ctx, cancel := context.WithCancel(context.Background())
		for _, raw := range sc.Ops[1:] {
			var op recOp
			if err := json.Unmarshal(raw, &op); err != nil {
				panic(err)
			}
			switch op.Op {
			case "user":
				st.userWrite(op.Kind, op.K)
			case "fail":
				st.cmu.Lock()
				st.failQ[fmt.Sprintf("%s/%d", op.On, op.K)] += op.N
				st.cmu.Unlock()
			case "inject":
				key := fmt.Sprintf("%s/%d", op.On, op.K)
				st.cmu.Lock()
				st.inject[key] = append(st.inject[key], recInject{nth: st.ncalls[key] + op.Nth, do: op.Do})
				st.cmu.Unlock()
			case "probes":
				// the progress published by the reconciler, read every Ms (virtual) milliseconds N times: at each of
				// these instants every goroutine is blocked, i.e. no round is under way
				for i := 0; i < op.N; i++ {
					time.Sleep(time.Duration(op.Ms) * time.Millisecond)
					synctest.Wait()
					t0 := st.now()
					ret, lw, err := st.r.WaitUntilReconciled(ctx, 0)
					st.emit(Ev{"op": "waitret", "req": 0, "ret": int(ret), "lw": int(lw), "err": errKind(err),
						"t0": t0, "t": st.now(), "q": true})
				}
			case "injectrefresh":
				st.cmu.Lock()
				st.refreshInj = append(st.refreshInj, recInject{nth: op.K, do: op.Do})
				st.cmu.Unlock()
			case "sleep":
				time.Sleep(time.Duration(op.Ms) * time.Millisecond)
				synctest.Wait()
			case "initdone":
				wtxn := st.db.WriteTxn(st.table)
				st.initFn(wtxn)
				st.cmu.Lock()
				st.userG[curGid()] = recUserWrite{"initdone", 0, 0}
				st.cmu.Unlock()
				wtxn.Commit()
				st.cmu.Lock()
				delete(st.userG, curGid())
				st.cmu.Unlock()
				st.emit(Ev{"op": "initdone", "t": st.now()})
			case "prune":
				st.r.Prune()
				st.emit(Ev{"op": "pruneTrigger", "t": st.now()})
			case "wait":
				// WaitUntilReconciled(rev): asynchronous unless q (quiescent, synchronous with time-out)
				rev := st.table.Revision(st.db.ReadTxn())
				if uint64(op.Back) < rev {
					rev -= uint64(op.Back)
				}
				call := func(wctx context.Context) {
					t0 := st.now()
					ret, lw, err := st.r.WaitUntilReconciled(wctx, rev)
					st.emit(Ev{"op": "waitret", "req": int(rev), "ret": int(ret), "lw": int(lw), "err": errKind(err),
						"t0": t0, "t": st.now(), "q": op.Q})
				}
				if op.Q {
					wctx, wcancel := context.WithTimeout(ctx, time.Duration(op.Ms)*time.Millisecond)
					call(wctx)
					wcancel()
				} else {
					st.waits.Add(1)
					go func() {
						defer st.waits.Done()
						call(ctx)
					}()
				}
			case "quiesce":
				time.Sleep(time.Duration(op.Ms) * time.Millisecond)
				synctest.Wait()
				rt := st.db.ReadTxn()
				rows := [][]any{}
				for o, rev := range st.table.All(rt) {
					rows = append(rows, []any{int(o.ID), o.Ver, kindOf(o.status()), int(rev), o.names()})
				}
				tg := [][]int{}
				keys := []int{}
				st.cmu.Lock()
				for k := range st.target {
					keys = append(keys, int(k))
				}
				sort.Ints(keys)
				for _, k := range keys {
					tg = append(tg, []int{k, st.target[uint64(k)]})
				}
				st.cmu.Unlock()
				st.emit(Ev{"op": "quiesce", "t": st.now(), "table": rows, "target": tg})
			default:
				panic("drv_rec: unknown op " + op.Op)
			}
		}
		cancel()
		st.waits.Wait()
		log.End(sc.ID)
		if err := h.Stop(hlog, context.TODO()); err != nil {
			panic(err)
		}
	})
}

func init() {
	drivers["rec"] = func(t *testing.T, scripts []Script, from int, log *Log) {
		for i := from; i < len(scripts); i++ {
			msg, panicked := protect(func() { runRecScript(t, scripts[i], log) })
			if panicked {
				log.Emit(Ev{"op": "panic", "during": "rec", "msg": msg})
				log.End(scripts[i].ID)
				ExitAfterPanic(log, i+1)
			}
		}
	}
}
