package harness

import (
	"os"
	"strconv"
	"testing"
)

// TestDriver is the single entry point: VERIF_DRIVER selects the driver,
// VERIF_SCRIPTS is the ndjson script file, VERIF_TRACE / VERIF_BOUNDS are the
// outputs. It is a test (not a main) so that testing/synctest is available.
func TestDriver(t *testing.T) {
	drv := os.Getenv("VERIF_DRIVER")
	if drv == "" {
		t.Skip("VERIF_DRIVER not set")
	}
	fn, ok := drivers[drv]
	if !ok {
		t.Fatalf("unknown driver %q", drv)
	}
	scripts, err := loadScripts(os.Getenv("VERIF_SCRIPTS"))
	if err != nil {
		t.Fatal(err)
	}
	from := 0
	if v := os.Getenv("VERIF_RESUME_FROM"); v != "" {
		from, _ = strconv.Atoi(v)
	}
	log, err := NewLog(os.Getenv("VERIF_TRACE"), os.Getenv("VERIF_BOUNDS"), from > 0)
	if err != nil {
		t.Fatal(err)
	}
	fn(t, scripts, from, log)
	if err := log.Close(); err != nil {
		t.Fatal(err)
	}
}

var drivers = map[string]func(t *testing.T, scripts []Script, from int, log *Log){}
