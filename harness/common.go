package harness

import (
	"bufio"
	"encoding/json"
	"fmt"
	"os"
	"runtime/debug"
	"strings"
)

// Ev is one log event: a flat JSON object. Field sets are fixed per op kind
// (DESIGN Appendix A) because TLC compares records structurally.
type Ev map[string]any

// Script is one generated script: a list of operations (each a JSON object
// with at least "op") executed against the real code.
type Script struct {
	ID  int               `json:"id"`
	Ops []json.RawMessage `json:"ops"`
}

type bound struct {
	S  int `json:"s"`
	E  int `json:"e"`
	ID int `json:"id"`
}

// Log writes the event log (ndjson) and the bounds file (one line per trace).
type Log struct {
	w      *bufio.Writer
	f      *os.File
	bw     *bufio.Writer
	bf     *os.File
	line   int // number of lines written so far
	start  int
	enc    *json.Encoder
	benc   *json.Encoder
	Traces int
	// flushEach: write every event through (drivers whose process may die with the code under test)
	flushEach bool
}

func NewLog(tracePath, boundsPath string, appendMode bool) (*Log, error) {
	flags := os.O_CREATE | os.O_WRONLY | os.O_TRUNC
	lines := 0
	if appendMode {
		flags = os.O_CREATE | os.O_WRONLY | os.O_APPEND
		if data, err := os.ReadFile(tracePath); err == nil {
			lines = strings.Count(string(data), "\n")
		}
	}
	f, err := os.OpenFile(tracePath, flags, 0o644)
	if err != nil {
		return nil, err
	}
	bf, err := os.OpenFile(boundsPath, flags, 0o644)
	if err != nil {
		return nil, err
	}
	l := &Log{f: f, bf: bf, line: lines, flushEach: os.Getenv("VERIF_FLUSH") != ""}
	l.w = bufio.NewWriterSize(f, 1<<20)
	l.bw = bufio.NewWriter(bf)
	l.enc = json.NewEncoder(l.w)
	l.benc = json.NewEncoder(l.bw)
	return l, nil
}

func (l *Log) Begin() { l.start = l.line + 1 }

func (l *Log) Emit(ev Ev) {
	if err := l.enc.Encode(ev); err != nil {
		panic(fmt.Sprintf("log encode: %v (%v)", err, ev))
	}
	l.line++
	if l.flushEach {
		l.w.Flush()
	}
}

func (l *Log) End(id int) {
	if l.line < l.start {
		// empty trace: emit a no-op so that bounds are well formed
		l.Emit(Ev{"op": "nop"})
	}
	l.benc.Encode(bound{S: l.start, E: l.line, ID: id})
	if l.flushEach {
		l.w.Flush()
		l.bw.Flush()
	}
	l.Traces++
}

func (l *Log) Close() error {
	l.w.Flush()
	l.bw.Flush()
	l.bf.Close()
	return l.f.Close()
}

// B converts a byte string into the JSON form used in logs (array of ints).
func B(b []byte) []int {
	out := make([]int, len(b))
	for i, x := range b {
		out[i] = int(x)
	}
	return out
}

// FromInts converts the JSON form back to bytes.
func FromInts(xs []int) []byte {
	out := make([]byte, len(xs))
	for i, x := range xs {
		out[i] = byte(x)
	}
	return out
}

func isClosed(ch <-chan struct{}) bool {
	select {
	case <-ch:
		return true
	default:
		return false
	}
}

// protect runs fn and converts a panic into (msg, true).
func protect(fn func()) (msg string, panicked bool) {
	defer func() {
		if r := recover(); r != nil {
			st := string(debug.Stack())
			// keep the first statedb frame for the record
			frame := ""
			for _, ln := range strings.Split(st, "\n") {
				if strings.Contains(ln, "cilium/statedb") && !strings.Contains(ln, "verif/harness") {
					frame = strings.TrimSpace(ln)
					break
				}
			}
			msg = fmt.Sprintf("%v @ %s", r, frame)
			if len(msg) > 300 {
				msg = msg[:300]
			}
			panicked = true
		}
	}()
	fn()
	return
}

func loadScripts(path string) ([]Script, error) {
	f, err := os.Open(path)
	if err != nil {
		return nil, err
	}
	defer f.Close()
	var out []Script
	sc := bufio.NewScanner(f)
	sc.Buffer(make([]byte, 1<<20), 1<<28)
	for sc.Scan() {
		line := sc.Bytes()
		if len(line) == 0 {
			continue
		}
		var s Script
		if err := json.Unmarshal(line, &s); err != nil {
			return nil, fmt.Errorf("script parse: %w", err)
		}
		out = append(out, s)
	}
	return out, sc.Err()
}

// ExitAfterPanic is called by a driver after it logged a panic of the code under test: the
// process state can no longer be trusted (locks may be held, finalizers armed), so the harness
// flushes its logs and exits with a distinguished status; the orchestrator resumes with the
// next script in a fresh process.
func ExitAfterPanic(log *Log, nextScript int) {
	log.Close()
	os.WriteFile(os.Getenv("VERIF_TRACE")+".resume", []byte(fmt.Sprintf("%d", nextScript)), 0o644)
	os.Exit(75)
}
