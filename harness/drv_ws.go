package harness

import (
	"context"
	"encoding/json"
	"errors"
	"testing"
	"testing/synctest"
	"time"

	"github.com/cilium/statedb"
)

// drv_ws runs WatchSet.Wait scenarios under virtual time (testing/synctest).
// A scenario: n channels (ids 1..n), members (added to the set), closeAt per
// channel in ms (-1 = never), context end time tc (-1 = never) and kind
// ("canceled"/"deadline"), settle and call time t0 in ms. A scenario may hold
// several waits ("again": call Wait once more at a later time).

type wsScenario struct {
	Op      string `json:"op"`
	N       int    `json:"n"`
	Members []int  `json:"members"`
	CloseAt []int  `json:"closeAt"`
	Tc      int    `json:"tc"`
	Kind    string `json:"kind"`
	Settle  int    `json:"settle"`
	T0      int    `json:"t0"`
	Again   int    `json:"again"` // second Wait this many ms after the first returned (0 = none)
	Settle2 int    `json:"settle2"`
	Unit    int    `json:"unit"` // ms per time unit
	// Via: how the members get into the set before the first Wait: "" = Add, "merge" = Merge of another set
	Via string `json:"via"`
	// Between: changes of the membership between the first and the second Wait (Add, Merge of another set, Clear)
	Between []wsBetween `json:"between"`
}

type wsBetween struct {
	Op  string `json:"op"` // "add" | "merge" | "clear"
	Ids []int  `json:"ids"`
}

func errKind(err error) string {
	switch {
	case err == nil:
		return ""
	case errors.Is(err, context.Canceled):
		return "canceled"
	case errors.Is(err, context.DeadlineExceeded):
		return "deadline"
	}
	return "other:" + err.Error()
}

func runWSScenario(t *testing.T, sc wsScenario, log *Log) {
	synctest.Test(t, func(t *testing.T) {
		unit := time.Duration(sc.Unit) * time.Millisecond
		if sc.Unit == 0 {
			unit = time.Millisecond
		}
		start := time.Now()
		chans := make([]chan struct{}, sc.N+1)
		ids := map[<-chan struct{}]int{}
		for i := 1; i <= sc.N; i++ {
			chans[i] = make(chan struct{})
			ids[chans[i]] = i
		}
		ws := statedb.NewWatchSet()
		if sc.Via == "merge" {
			ws2 := statedb.NewWatchSet()
			for _, m := range sc.Members {
				ws2.Add(chans[m])
			}
			ws.Merge(ws2)
		} else {
			for _, m := range sc.Members {
				ws.Add(chans[m])
			}
		}
		var ctx context.Context
		var cancel context.CancelFunc
		switch {
		case sc.Tc < 0:
			ctx, cancel = context.WithCancel(context.Background())
		case sc.Kind == "deadline":
			ctx, cancel = context.WithDeadline(context.Background(), start.Add(time.Duration(sc.Tc)*unit))
		default:
			ctx, cancel = context.WithCancel(context.Background())
			go func() {
				time.Sleep(time.Duration(sc.Tc) * unit)
				cancel()
			}()
		}
		defer cancel()
		for i := 1; i <= sc.N; i++ {
			if sc.CloseAt[i-1] >= 0 {
				ch, at := chans[i], sc.CloseAt[i-1]
				go func() {
					time.Sleep(time.Duration(at) * unit)
					close(ch)
				}()
			}
		}
		members := map[int]bool{}
		for _, m := range sc.Members {
			members[m] = true
		}
		doWait := func(settle int) {
			mlist := []int{}
			for i := 1; i <= sc.N; i++ {
				if members[i] {
					mlist = append(mlist, i)
				}
			}
			t0 := int(time.Since(start) / unit)
			got, err := ws.Wait(ctx, time.Duration(settle)*unit)
			t1 := int(time.Since(start) / unit)
			ret := []int{}
			for _, ch := range got {
				ret = append(ret, ids[ch])
				delete(members, ids[ch])
			}
			has := make([]bool, sc.N)
			for i := 1; i <= sc.N; i++ {
				has[i-1] = ws.Has(chans[i])
			}
			log.Emit(Ev{"op": "wait", "members": mlist, "closeAt": ints(sc.CloseAt), "tc": sc.Tc, "kind": sc.Kind,
				"settle": settle, "t0": t0, "t1": t1, "ret": ret, "err": errKind(err), "has": has})
		}
		time.Sleep(time.Duration(sc.T0) * unit)
		doWait(sc.Settle)
		if sc.Again > 0 {
			time.Sleep(time.Duration(sc.Again) * unit)
			for _, b := range sc.Between {
				switch b.Op {
				case "add":
					for _, m := range b.Ids {
						ws.Add(chans[m])
						members[m] = true
					}
				case "merge":
					ws2 := statedb.NewWatchSet()
					for _, m := range b.Ids {
						ws2.Add(chans[m])
						members[m] = true
					}
					ws.Merge(ws2)
				case "clear":
					ws.Clear()
					members = map[int]bool{}
				}
			}
			doWait(sc.Settle2)
		}
		cancel()
		// let the helper goroutines finish before the bubble ends
		time.Sleep(time.Duration(100000) * unit)
	})
}

func init() {
	drivers["ws"] = func(t *testing.T, scripts []Script, from int, log *Log) {
		for i := from; i < len(scripts); i++ {
			sc := scripts[i]
			log.Begin()
			bad := false
			for _, raw := range sc.Ops {
				var s wsScenario
				if err := json.Unmarshal(raw, &s); err != nil {
					panic(err)
				}
				msg, panicked := protect(func() { runWSScenario(t, s, log) })
				if panicked {
					log.Emit(Ev{"op": "panic", "during": "wait", "msg": msg})
					bad = true
					break
				}
			}
			log.End(sc.ID)
			if bad {
				ExitAfterPanic(log, i+1)
			}
		}
	}
}
