package harness

import (
	"encoding/json"
	"fmt"
	"math/rand"
	"sort"
	"sync"
	"sync/atomic"
	"testing"

	"github.com/cilium/statedb"
	"github.com/cilium/statedb/index"
)

// drv_stress: free-running goroutines (no hooks, no parking), built with -race.
// The oracle is carried in the data: every write transaction x inserts the
// marker object "m<x>" into each of its tables and increments the table's
// counter object with Modify; aborted transactions write the same things.
// Readers take snapshots, read per table the marker set, the counter, the
// revision and NumObjects, retain snapshots and re-read them later. Calls are
// ordered by a sequence number taken by the harness (never by clocks).
// Validated by spec/trace/StressTrace.tla.

type stressObj struct {
	PK  string
	Val int
}

type stressCfg struct {
	Op      string `json:"op"`
	Tables  int    `json:"tables"`
	Writers int    `json:"writers"`
	Txns    int    `json:"txns"`
	Readers int    `json:"readers"`
	Reads   int    `json:"reads"`
	Seed    int64  `json:"seed"`
}

func runStress(cfg stressCfg, log *Log) {
	db := statedb.New()
	idx := statedb.Index[*stressObj, string]{
		Name:       "id",
		FromObject: func(o *stressObj) index.KeySet { return index.NewKeySet(index.String(o.PK)) },
		FromKey:    index.String,
		Unique:     true,
	}
	tables := make([]statedb.RWTable[*stressObj], cfg.Tables)
	for i := range tables {
		t, err := statedb.NewTableAny[*stressObj](db, fmt.Sprintf("s%d", i),
			func() []string { return []string{"pk"} }, func(o *stressObj) []string { return []string{o.PK} }, idx)
		if err != nil {
			panic(err)
		}
		tables[i] = t
	}
	db.Start()
	defer db.Stop()
	wtxn := db.WriteTxn(toMetas(tables)...)
	for _, t := range tables {
		t.Insert(wtxn, &stressObj{PK: "cnt", Val: 0})
	}
	wtxn.Commit()

	var seq atomic.Int64
	var mu sync.Mutex
	emit := func(ev Ev) {
		mu.Lock()
		log.Emit(ev)
		mu.Unlock()
	}
	var xid atomic.Int64
	var wg sync.WaitGroup
	for w := 0; w < cfg.Writers; w++ {
		wg.Add(1)
		go func(w int) {
			defer wg.Done()
			rng := rand.New(rand.NewSource(cfg.Seed*1000 + int64(w)))
			for i := 0; i < cfg.Txns; i++ {
				x := int(xid.Add(1))
				n := 1 + rng.Intn(cfg.Tables)
				perm := rng.Perm(cfg.Tables)[:n]
				metas := make([]statedb.TableMeta, n)
				for j, t := range perm {
					metas[j] = tables[t]
				}
				t0 := seq.Add(1)
				wtxn := db.WriteTxn(metas...)
				for _, t := range perm {
					tables[t].Insert(wtxn, &stressObj{PK: fmt.Sprintf("m%06d", x), Val: x})
					tables[t].Modify(wtxn, &stressObj{PK: "cnt", Val: 1}, func(old, new *stressObj) *stressObj {
						return &stressObj{PK: "cnt", Val: old.Val + 1}
					})
				}
				commit := rng.Intn(5) != 0
				if commit {
					wtxn.Commit()
				} else {
					wtxn.Abort()
				}
				t1 := seq.Add(1)
				sort.Ints(perm)
				emit(Ev{"op": "txn", "x": x, "tables": perm, "committed": commit, "t0": int(t0), "t1": int(t1)})
			}
		}(w)
	}
	var rid atomic.Int64
	for r := 0; r < cfg.Readers; r++ {
		wg.Add(1)
		go func(r int) {
			defer wg.Done()
			rng := rand.New(rand.NewSource(cfg.Seed*7777 + int64(r)))
			type kept struct {
				id  int
				txn statedb.ReadTxn
			}
			var retained []kept
			read := func(txn statedb.ReadTxn, id, of int, s0 int64) {
				tabs := []map[string]any{}
				for ti, t := range tables {
					markers := []int{}
					cnt := -1
					for o := range t.All(txn) {
						if o.PK == "cnt" {
							cnt = o.Val
						} else {
							markers = append(markers, o.Val)
						}
					}
					tabs = append(tabs, map[string]any{"t": ti, "markers": markers, "cnt": cnt,
						"rev": int(t.Revision(txn)), "num": t.NumObjects(txn)})
				}
				s1 := seq.Add(1)
				emit(Ev{"op": "read", "id": id, "r": r, "of": of, "s0": int(s0), "s1": int(s1), "tables": tabs})
			}
			for i := 0; i < cfg.Reads; i++ {
				if len(retained) > 0 && rng.Intn(3) == 0 {
					k := retained[rng.Intn(len(retained))]
					read(k.txn, int(rid.Add(1)), k.id, seq.Add(1))
					continue
				}
				s0 := seq.Add(1)
				txn := db.ReadTxn()
				id := int(rid.Add(1))
				read(txn, id, 0, s0)
				if rng.Intn(4) == 0 {
					retained = append(retained, kept{id, txn})
					if len(retained) > 6 {
						retained = retained[1:]
					}
				}
			}
		}(r)
	}
	wg.Wait()
	// final state
	txn := db.ReadTxn()
	tabs := []map[string]any{}
	for ti, t := range tables {
		markers := []int{}
		cnt := -1
		for o := range t.All(txn) {
			if o.PK == "cnt" {
				cnt = o.Val
			} else {
				markers = append(markers, o.Val)
			}
		}
		tabs = append(tabs, map[string]any{"t": ti, "markers": markers, "cnt": cnt, "rev": int(t.Revision(txn)), "num": t.NumObjects(txn)})
	}
	s := int(seq.Add(1))
	emit(Ev{"op": "read", "id": int(rid.Add(1)), "r": -1, "of": 0, "s0": s, "s1": s + 1, "tables": tabs})
}

func toMetas(ts []statedb.RWTable[*stressObj]) []statedb.TableMeta {
	out := make([]statedb.TableMeta, len(ts))
	for i, t := range ts {
		out[i] = t
	}
	return out
}

func init() {
	drivers["stress"] = func(t *testing.T, scripts []Script, from int, log *Log) {
		for i := from; i < len(scripts); i++ {
			var cfg stressCfg
			if err := json.Unmarshal(scripts[i].Ops[0], &cfg); err != nil {
				panic(err)
			}
			log.Begin()
			msg, panicked := protect(func() { runStress(cfg, log) })
			if panicked {
				log.Emit(Ev{"op": "panic", "during": "stress", "msg": msg})
			}
			log.End(scripts[i].ID)
			if panicked {
				ExitAfterPanic(log, i+1)
			}
		}
	}
}
