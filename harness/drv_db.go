package harness

import (
	"context"
	"encoding/json"
	"errors"
	"fmt"
	"iter"
	"log/slog"
	"strings"
	"sync"
	"testing"
	"testing/synctest"
	"time"

	"github.com/cilium/hive"
	"github.com/cilium/hive/cell"
	"github.com/cilium/hive/hivetest"
	"github.com/cilium/hive/job"
	"github.com/cilium/statedb"
	"github.com/cilium/statedb/index"
	"github.com/cilium/statedb/lpm"
)

// drv_db interprets scripts against a statedb.DB on a single goroutine, under
// testing/synctest (virtual time for the graveyard collector). One script op
// produces exactly one log event (a panic ends the trace). Format: DESIGN
// Appendix A; validated by spec/trace/DBTrace.tla.

type dbObj struct {
	PK    string
	Val   int
	HasU  bool
	U     string
	Tags  []string
	Pfx   [][]int // bit prefixes
	HasUp bool
	Upfx  []int
}

type jObj struct {
	PK    []int   `json:"pk"`
	Val   int     `json:"val"`
	HasU  bool    `json:"hasU"`
	U     []int   `json:"u"`
	Tags  [][]int `json:"tags"`
	Pfx   [][]int `json:"pfx"`
	HasUp bool    `json:"hasUp"`
	Upfx  []int   `json:"upfx"`
}

func (j jObj) obj() *dbObj {
	o := &dbObj{PK: string(FromInts(j.PK)), Val: j.Val, HasU: j.HasU, U: string(FromInts(j.U)),
		HasUp: j.HasUp, Upfx: j.Upfx, Pfx: j.Pfx}
	for _, t := range j.Tags {
		o.Tags = append(o.Tags, string(FromInts(t)))
	}
	return o
}

func ints(xs []int) []int {
	if xs == nil {
		return []int{}
	}
	return xs
}

func intss(xs [][]int) [][]int {
	out := make([][]int, len(xs))
	for i, x := range xs {
		out[i] = ints(x)
	}
	return out
}

func (j jObj) ev() map[string]any {
	return map[string]any{"pk": ints(j.PK), "val": j.Val, "hasU": j.HasU, "u": ints(j.U), "tags": intss(j.Tags),
		"pfx": intss(j.Pfx), "hasUp": j.HasUp, "upfx": ints(j.Upfx)}
}

type dbSrc struct {
	Kind string `json:"kind"`
	ID   int    `json:"id"`
}

type dbOp struct {
	Op      string `json:"op"`
	T       int    `json:"t"`
	T2      int    `json:"t2"` // derive: output table
	Tx      int    `json:"tx"`
	Tables  []int  `json:"tables"`
	Obj     jObj   `json:"obj"`
	Guard   int    `json:"guard"`
	GSym    string `json:"gsym"` // "", "cur", "stale", "future": resolved by the harness
	W       int    `json:"w"`
	Src     dbSrc  `json:"src"`
	Index   string `json:"index"`
	Q       string `json:"q"`
	Key     []int  `json:"key"`
	Ctx     string `json:"ctx"`
	First   int    `json:"first"`
	ID      int    `json:"id"`
	Snap    int    `json:"snap"`
	It      int    `json:"it"`
	Take    int    `json:"take"`
	Name    string `json:"name"`
	Ms      int    `json:"ms"`
	Quiet   bool   `json:"quiet"`
	Until   int    `json:"until"` // grave, schedule driver: wait (real time) until the graveyard holds until-1 objects
	NilEmpt bool   `json:"nilempty"`
}

type dbMetrics struct {
	mu    sync.Mutex
	grave map[string]int
	trk   map[string]int
}

func (m *dbMetrics) WriteTxnTableAcquisition(string, string, time.Duration)   {}
func (m *dbMetrics) WriteTxnTotalAcquisition(string, []string, time.Duration) {}
func (m *dbMetrics) WriteTxnDuration(string, []string, time.Duration)         {}
func (m *dbMetrics) GraveyardLowWatermark(string, statedb.Revision)           {}
func (m *dbMetrics) GraveyardCleaningDuration(string, time.Duration)          {}
func (m *dbMetrics) ObjectCount(string, int)                                  {}
func (m *dbMetrics) Revision(string, statedb.Revision)                        {}
func (m *dbMetrics) GraveyardObjectCount(name string, n int) {
	m.mu.Lock()
	m.grave[name] = n
	m.mu.Unlock()
}
func (m *dbMetrics) DeleteTrackerCount(name string, n int) {
	m.mu.Lock()
	m.trk[name] = n
	m.mu.Unlock()
}

type dbTable struct {
	tbl  statedb.RWTable[*dbObj]
	id   statedb.Index[*dbObj, string]
	u    statedb.Index[*dbObj, string]
	tags statedb.Index[*dbObj, string]
	pfx  statedb.LPMIndex[*dbObj]
	upfx statedb.LPMIndex[*dbObj]
}

type dbIter struct {
	it statedb.ChangeIterator[*dbObj]
	t  int
}

// dbObserver is a subscriber of statedb.Observable: the changes it has been handed since the last read
type dbObserver struct {
	t      int
	mu     sync.Mutex
	buf    [][]any
	cancel context.CancelFunc
	done   chan struct{}
}

type dbState struct {
	db       *statedb.DB
	metrics  *dbMetrics
	nilEmpty bool
	tables   map[int]*dbTable
	wtxns    map[int]statedb.WriteTxn
	snaps    map[int]statedb.ReadTxn
	chans    map[int]<-chan struct{}
	order    []int
	iters    map[int]*dbIter
	obs      map[int]*dbObserver
	hive     *hive.Hive // job group for statedb.Derive, started on first use
	hlog     *slog.Logger
	jobs     job.Group
	lc       cell.Lifecycle
	derived  map[int]bool // output tables of Derive jobs
	tt       *testing.T
	dones    map[string]func(statedb.WriteTxn)
	open     map[int]bool // write transactions not yet committed/aborted
	held     map[int]int  // table -> open transaction holding it

	// concurrent: driven by drv_sched (several goroutines, no synctest bubble); blocking on a
	// table lock is then expected and virtual-time helpers are off
	concurrent bool
	mu         sync.Mutex
}

// deriveTransform is the transformation used with statedb.Derive (the same function is written down in DB.tla,
// DeriveKind): by value modulo 4: 0 -> skip, 1 -> update only if present, otherwise insert; deletions delete,
// except for values = 0 mod 4, which are skipped.
func deriveTransform(o *dbObj, deleted bool) (*dbObj, statedb.DeriveResult) {
	out := &dbObj{PK: o.PK, Val: o.Val}
	switch {
	case o.Val%4 == 0:
		return out, statedb.DeriveSkip
	case deleted:
		return out, statedb.DeriveDelete
	case o.Val%4 == 1:
		return out, statedb.DeriveUpdate
	}
	return out, statedb.DeriveInsert
}

func (st *dbState) ensureJobs() {
	if st.hive != nil {
		return
	}
	st.hive = hive.New(
		job.Cell,
		cell.Provide(cell.NewSimpleHealth, func(r job.Registry, h cell.Health) job.Group { return r.NewGroup(h) }),
		cell.Invoke(func(g job.Group, lc cell.Lifecycle) { st.jobs, st.lc = g, lc }),
	)
	st.hlog = hivetest.Logger(st.tt, hivetest.LogLevel(slog.LevelError))
	if err := st.hive.Start(st.hlog, context.TODO()); err != nil {
		panic(err)
	}
}

func (st *dbState) release(tx int) {
	delete(st.open, tx)
	for t, x := range st.held {
		if x == tx {
			delete(st.held, t)
		}
	}
}

// settle lets the graveyard collector finish a pass it may have been triggered for, so that the
// run is deterministic. Only possible while the driver holds no table lock.
func (st *dbState) settle() {
	if st.concurrent {
		return
	}
	if len(st.open) == 0 {
		synctest.Wait()
	}
}

func (st *dbState) mk(s string) index.Key {
	if s == "" && st.nilEmpty {
		return nil
	}
	return index.Key([]byte(s))
}

func bitsData(bits []int) ([]byte, lpm.PrefixLen) {
	n := (len(bits) + 7) / 8
	data := make([]byte, n)
	for i, b := range bits {
		if b != 0 {
			data[i/8] |= 1 << (7 - uint(i%8))
		}
	}
	return data, lpm.PrefixLen(len(bits))
}

func (st *dbState) newTable(t int) error {
	dt := &dbTable{}
	dt.id = statedb.Index[*dbObj, string]{
		Name:       "id",
		FromObject: func(o *dbObj) index.KeySet { return index.NewKeySet(st.mk(o.PK)) },
		FromKey:    func(s string) index.Key { return st.mk(s) },
		FromString: index.FromString,
		Unique:     true,
	}
	dt.u = statedb.Index[*dbObj, string]{
		Name: "u",
		FromObject: func(o *dbObj) index.KeySet {
			if !o.HasU {
				return index.NewKeySet()
			}
			return index.NewKeySet(st.mk(o.U))
		},
		FromKey:    func(s string) index.Key { return st.mk(s) },
		FromString: index.FromString,
		Unique:     true,
	}
	dt.tags = statedb.Index[*dbObj, string]{
		Name: "tags",
		FromObject: func(o *dbObj) index.KeySet {
			keys := make([]index.Key, 0, len(o.Tags))
			for _, t := range o.Tags {
				keys = append(keys, st.mk(t))
			}
			return index.NewKeySet(keys...)
		},
		FromKey:    func(s string) index.Key { return st.mk(s) },
		FromString: index.FromString,
		Unique:     false,
	}
	dt.pfx = statedb.LPMIndex[*dbObj]{
		Name: "pfx",
		FromObject: func(o *dbObj) iter.Seq2[[]byte, statedb.PrefixLen] {
			return func(yield func([]byte, statedb.PrefixLen) bool) {
				for _, p := range o.Pfx {
					d, l := bitsData(p)
					if !yield(d, l) {
						return
					}
				}
			}
		},
		Unique: false,
	}
	dt.upfx = statedb.LPMIndex[*dbObj]{
		Name: "upfx",
		FromObject: func(o *dbObj) iter.Seq2[[]byte, statedb.PrefixLen] {
			return func(yield func([]byte, statedb.PrefixLen) bool) {
				if o.HasUp {
					d, l := bitsData(o.Upfx)
					yield(d, l)
				}
			}
		},
		Unique: true,
	}
	tbl, err := statedb.NewTableAny[*dbObj](st.db, fmt.Sprintf("t%d", t),
		func() []string { return []string{"pk"} },
		func(o *dbObj) []string { return []string{o.PK} },
		dt.id, dt.u, dt.tags, dt.pfx, dt.upfx)
	if err != nil {
		return err
	}
	dt.tbl = tbl
	st.mu.Lock()
	st.tables[t] = dt
	st.mu.Unlock()
	return nil
}

func (st *dbState) rtxn(s dbSrc) (statedb.ReadTxn, bool) {
	if s.Kind == "snap" {
		r, ok := st.snaps[s.ID]
		return r, ok
	}
	w, ok := st.wtxns[s.ID]
	return w, ok
}

func srcMap(s dbSrc) map[string]any { return map[string]any{"kind": s.Kind, "id": s.ID} }

func row(o *dbObj, rev statedb.Revision) []any {
	return []any{B([]byte(o.PK)), o.Val, int(rev)}
}

func errName(err error) string {
	switch {
	case err == nil:
		return ""
	case errors.Is(err, statedb.ErrTableNotLockedForWriting):
		return "NotLocked"
	case errors.Is(err, statedb.ErrTransactionClosed):
		return "Closed"
	case errors.Is(err, statedb.ErrObjectNotFound):
		return "NotFound"
	case errors.Is(err, statedb.ErrRevisionNotEqual):
		return "RevNotEqual"
	}
	return "other:" + err.Error()
}

func (st *dbState) track(w int, ch <-chan struct{}) bool {
	if w == 0 || ch == nil {
		return false
	}
	st.chans[w] = ch
	st.order = append(st.order, w)
	return isClosed(ch)
}

func (st *dbState) query(dt *dbTable, op dbOp) statedb.Query[*dbObj] {
	key := string(FromInts(op.Key))
	switch op.Index {
	case "id":
		return dt.id.Query(key)
	case "u":
		return dt.u.Query(key)
	case "tags":
		return dt.tags.Query(key)
	case "pfx":
		d, l := bitsData(op.Key)
		return dt.pfx.Query(d, l)
	case "upfx":
		d, l := bitsData(op.Key)
		return dt.upfx.Query(d, l)
	case "rev":
		r := 0
		if len(op.Key) > 0 {
			r = op.Key[0]
		}
		return statedb.ByRevision[*dbObj](uint64(r))
	}
	panic("drv_db: unknown index " + op.Index)
}

func mergeObj(old, new *dbObj) *dbObj {
	n := *new
	n.Val = mergeVal(old.Val, new.Val)
	return &n
}

func (st *dbState) exec(op dbOp) Ev {
	nop := Ev{"op": "nop", "what": op.Op}
	switch op.Op {
	case "newtable":
		if err := st.newTable(op.T); err != nil {
			if errors.Is(err, statedb.ErrDuplicateTable) && st.concurrent {
				// two goroutines registering the same name: the loser is told so (schedule driver)
				return Ev{"op": "newtable", "t": op.T, "err": "duplicate"}
			}
			panic(err)
		}
		return Ev{"op": "newtable", "t": op.T}
	case "wtxn":
		metas := []statedb.TableMeta{}
		for _, t := range op.Tables {
			if _, busy := st.held[t]; (busy && !st.concurrent) || st.tables[t] == nil {
				return nop // would block forever on this goroutine (invalid script)
			}
			metas = append(metas, st.tables[t].tbl)
		}
		if _, dup := st.wtxns[op.Tx]; dup {
			return nop
		}
		st.wtxns[op.Tx] = st.db.WriteTxn(metas...)
		st.open[op.Tx] = true
		for _, t := range op.Tables {
			st.held[t] = op.Tx
		}
		return Ev{"op": "wtxn", "tx": op.Tx, "tables": ints(op.Tables)}
	case "insert", "modify", "cas", "delete", "cad":
		wtxn, ok := st.wtxns[op.Tx]
		dt := st.tables[op.T]
		if !ok || dt == nil {
			return nop
		}
		o := op.Obj.obj()
		guard := op.Guard
		if op.GSym != "" && !st.open[op.Tx] {
			guard = 1
		} else if op.GSym != "" {
			// resolve a symbolic guard from what the transaction currently sees
			cur := 0
			if _, rev, found := dt.tbl.Get(wtxn, dt.id.Query(o.PK)); found {
				cur = int(rev)
			}
			switch op.GSym {
			case "cur":
				guard = cur
			case "stale":
				guard = cur - 1
			case "future":
				guard = int(dt.tbl.Revision(wtxn)) + 3
			}
			if guard <= 0 {
				guard = int(dt.tbl.Revision(wtxn)) + 7
			}
		}
		var (
			old *dbObj
			had bool
			err error
			w   <-chan struct{}
		)
		switch op.Op {
		case "insert":
			if op.W != 0 {
				old, had, w, err = dt.tbl.InsertWatch(wtxn, o)
			} else {
				old, had, err = dt.tbl.Insert(wtxn, o)
			}
		case "modify":
			old, had, err = dt.tbl.Modify(wtxn, o, mergeObj)
		case "cas":
			old, had, err = dt.tbl.CompareAndSwap(wtxn, uint64(guard), o)
		case "delete":
			old, had, err = dt.tbl.Delete(wtxn, o)
		case "cad":
			old, had, err = dt.tbl.CompareAndDelete(wtxn, uint64(guard), o)
		}
		wc := st.track(op.W, w)
		oldRow := []any{}
		if had && old != nil {
			// the API does not return the old revision; it is logged as 0 and not compared
			oldRow = []any{B([]byte(old.PK)), old.Val}
		}
		return Ev{"op": op.Op, "tx": op.Tx, "t": op.T, "obj": op.Obj.ev(), "guard": guard, "w": op.W, "wc": wc,
			"had": had, "old": oldRow, "err": errName(err)}
	case "deleteall":
		wtxn, ok := st.wtxns[op.Tx]
		dt := st.tables[op.T]
		if !ok || dt == nil {
			return nop
		}
		err := dt.tbl.DeleteAll(wtxn)
		return Ev{"op": "deleteall", "tx": op.Tx, "t": op.T, "err": errName(err)}
	case "snap":
		st.snaps[op.ID] = st.db.ReadTxn()
		return Ev{"op": "snap", "id": op.ID}
	case "query":
		rt, ok := st.rtxn(op.Src)
		dt := st.tables[op.T]
		if !ok || dt == nil {
			return nop
		}
		rows := [][]any{}
		var w <-chan struct{}
		collect := func(seq iter.Seq2[*dbObj, statedb.Revision]) {
			for o, rev := range seq {
				rows = append(rows, row(o, rev))
			}
		}
		switch op.Q {
		case "get":
			o, rev, ww, found := dt.tbl.GetWatch(rt, st.query(dt, op))
			w = ww
			if found {
				rows = append(rows, row(o, rev))
			}
		case "list":
			seq, ww := dt.tbl.ListWatch(rt, st.query(dt, op))
			w = ww
			collect(seq)
		case "prefix":
			seq, ww := dt.tbl.PrefixWatch(rt, st.query(dt, op))
			w = ww
			collect(seq)
		case "lowerbound":
			seq, ww := dt.tbl.LowerBoundWatch(rt, st.query(dt, op))
			w = ww
			collect(seq)
		case "all":
			seq, ww := dt.tbl.AllWatch(rt)
			w = ww
			collect(seq)
		default:
			panic("drv_db: unknown query kind " + op.Q)
		}
		wc := st.track(op.W, w)
		return Ev{"op": "query", "src": srcMap(op.Src), "t": op.T, "index": op.Index, "q": op.Q, "key": ints(op.Key),
			"w": op.W, "wc": wc, "ctx": op.Ctx, "first": op.First, "rows": rows}
	case "num", "rev":
		rt, ok := st.rtxn(op.Src)
		dt := st.tables[op.T]
		if !ok || dt == nil {
			return nop
		}
		n := 0
		if op.Op == "num" {
			n = dt.tbl.NumObjects(rt)
		} else {
			n = int(dt.tbl.Revision(rt))
		}
		return Ev{"op": op.Op, "src": srcMap(op.Src), "t": op.T, "ctx": op.Ctx, "first": op.First, "n": n}
	case "commit":
		wtxn, ok := st.wtxns[op.Tx]
		if !ok {
			return nop
		}
		rt := wtxn.Commit()
		st.release(op.Tx)
		st.settle()
		if rt != nil {
			st.snaps[op.Snap] = rt
		}
		return Ev{"op": "commit", "tx": op.Tx, "snap": op.Snap, "nilret": rt == nil}
	case "abort":
		wtxn, ok := st.wtxns[op.Tx]
		if !ok {
			return nop
		}
		wtxn.Abort()
		st.release(op.Tx)
		st.settle()
		return Ev{"op": "abort", "tx": op.Tx}
	case "chans":
		closed := []int{}
		for _, id := range st.order {
			if isClosed(st.chans[id]) {
				closed = append(closed, id)
			}
		}
		return Ev{"op": "chans", "closed": closed, "ntables": len(st.db.GetTables(st.db.ReadTxn())), "ctx": op.Ctx}
	case "changes":
		wtxn, ok := st.wtxns[op.Tx]
		dt := st.tables[op.T]
		if !ok || dt == nil {
			return nop
		}
		it, err := dt.tbl.Changes(wtxn)
		if err == nil {
			st.iters[op.It] = &dbIter{it: it, t: op.T}
		}
		return Ev{"op": "changes", "tx": op.Tx, "t": op.T, "it": op.It, "err": errName(err)}
	case "next":
		di, ok := st.iters[op.It]
		rt, ok2 := st.rtxn(op.Src)
		if !ok || !ok2 {
			return nop
		}
		seq, watch := di.it.Next(rt)
		cs := [][]any{}
		exhausted := true
		n := 0
		if op.Take == 0 {
			// the sequence is not iterated at all
			exhausted = false
		} else {
			for ch, rev := range seq {
				// an element handed to the loop body has been delivered
				n++
				cs = append(cs, []any{B([]byte(ch.Object.PK)), ch.Object.Val, int(rev), ch.Deleted, int(ch.Revision)})
				if op.Take > 0 && n >= op.Take {
					exhausted = false
					break
				}
			}
		}
		st.settle()
		cw := isClosed(watch)
		w := 0
		if !cw {
			w = op.W
			st.track(w, watch)
		}
		return Ev{"op": "next", "it": op.It, "src": srcMap(op.Src), "take": op.Take, "cs": cs, "cw": cw,
			"ex": exhausted, "w": w}
	case "dbstop":
		// DB.Stop() from another goroutine (schedule driver only): the collector is told to stop wherever it is
		if !st.concurrent {
			return nop
		}
		go st.db.Stop()
		return Ev{"op": "nop", "what": "dbstop"}
	case "derive":
		// statedb.Derive from table T into table T2: a job of the library mirrors T (its own change iterator) into
		// T2 with deriveTransform.  Sequential driver only, no table held.
		in, out := st.tables[op.T], st.tables[op.T2]
		if st.concurrent || in == nil || out == nil || len(st.open) > 0 || st.derived[op.T2] || op.T == op.T2 || st.iters[op.It] != nil {
			return nop
		}
		st.ensureJobs()
		statedb.Derive[*dbObj, *dbObj]("derive", deriveTransform)(statedb.DeriveParams[*dbObj, *dbObj]{
			Lifecycle: st.lc, JobGroup: st.jobs, DB: st.db, InTable: in.tbl, OutTable: out.tbl})
		st.derived[op.T2] = true
		synctest.Wait()
		return Ev{"op": "derive", "it": op.It, "t": op.T, "t2": op.T2}
	case "derivesync":
		// the job has had time to react to everything committed so far
		if st.concurrent || len(st.open) > 0 || !st.derived[op.T2] {
			return nop
		}
		synctest.Wait()
		return Ev{"op": "derivesync", "it": op.It, "t2": op.T2}
	case "observe":
		// statedb.Observable: a goroutine of the library creates a change iterator in a transaction of its own
		// and pushes every batch to the subscriber.  Only in the sequential driver and while no table is held
		// (the stream needs the table lock to start and to stop).
		dt := st.tables[op.T]
		if st.concurrent || dt == nil || len(st.open) > 0 || st.obs[op.It] != nil || st.iters[op.It] != nil {
			return nop
		}
		ob := &dbObserver{t: op.T, done: make(chan struct{})}
		ctx, cancel := context.WithCancel(context.Background())
		ob.cancel = cancel
		statedb.Observable[*dbObj](st.db, dt.tbl).Observe(ctx,
			func(ch statedb.Change[*dbObj]) {
				ob.mu.Lock()
				ob.buf = append(ob.buf, []any{B([]byte(ch.Object.PK)), ch.Object.Val, int(ch.Revision), ch.Deleted, int(ch.Revision)})
				ob.mu.Unlock()
			},
			func(error) { close(ob.done) })
		synctest.Wait()
		st.obs[op.It] = ob
		return Ev{"op": "observe", "it": op.It, "t": op.T}
	case "obsread":
		// everything the subscriber has received since the last read: one batch as long as the script reads after
		// every commit of the table.  Logged as the Next it stands for (fully consumed, given the snapshot src).
		ob, ok := st.obs[op.It]
		if !ok || len(st.open) > 0 {
			return nop
		}
		if _, ok2 := st.rtxn(op.Src); !ok2 {
			return nop
		}
		synctest.Wait()
		ob.mu.Lock()
		cs := ob.buf
		ob.buf = nil
		ob.mu.Unlock()
		if cs == nil {
			cs = [][]any{}
		}
		return Ev{"op": "next", "it": op.It, "src": srcMap(op.Src), "take": -1, "cs": cs, "cw": true, "ex": true, "w": 0, "observer": true}
	case "obsstop":
		ob, ok := st.obs[op.It]
		if !ok || len(st.open) > 0 {
			return nop
		}
		ob.cancel()
		<-ob.done
		synctest.Wait()
		delete(st.obs, op.It)
		return Ev{"op": "iterclose", "it": op.It}
	case "iterclose":
		di, ok := st.iters[op.It]
		if !ok {
			return nop
		}
		if _, busy := st.held[di.t]; busy && !st.concurrent {
			return nop // Close() needs the table lock
		}
		di.it.Close()
		st.settle()
		return Ev{"op": "iterclose", "it": op.It}
	case "reginit":
		wtxn, ok := st.wtxns[op.Tx]
		dt := st.tables[op.T]
		if !ok || dt == nil {
			return nop
		}
		st.dones[fmt.Sprintf("%d/%s", op.T, op.Name)] = dt.tbl.RegisterInitializer(wtxn, op.Name)
		return Ev{"op": "reginit", "tx": op.Tx, "t": op.T, "name": op.Name}
	case "markdone":
		wtxn, ok := st.wtxns[op.Tx]
		done, ok2 := st.dones[fmt.Sprintf("%d/%s", op.T, op.Name)]
		if !ok || !ok2 {
			return nop
		}
		done(wtxn)
		return Ev{"op": "markdone", "tx": op.Tx, "t": op.T, "name": op.Name}
	case "init":
		rt, ok := st.rtxn(op.Src)
		dt := st.tables[op.T]
		if !ok || dt == nil {
			return nop
		}
		initialized, watch := dt.tbl.Initialized(rt)
		pending := dt.tbl.PendingInitializers(rt)
		if pending == nil {
			pending = []string{}
		}
		wc := st.track(op.W, watch)
		return Ev{"op": "init", "src": srcMap(op.Src), "t": op.T, "w": op.W, "wc": wc,
			"initialized": initialized, "pending": pending}
	case "sleep":
		if st.concurrent {
			time.Sleep(time.Duration(op.Ms) * time.Millisecond)
			return Ev{"op": "sleep", "ms": op.Ms}
		}
		if len(st.open) > 0 {
			return nop // the collector could block on a table lock held by the driver
		}
		time.Sleep(time.Duration(op.Ms) * time.Millisecond)
		synctest.Wait()
		return Ev{"op": "sleep", "ms": op.Ms}
	case "grave":
		// graveyard size and tracker count as last reported through the public Metrics interface
		// (reported at every commit of the table and after every collection)
		name := fmt.Sprintf("t%d", op.T)
		st.metrics.mu.Lock()
		n, trk := st.metrics.grave[name], st.metrics.trk[name]
		st.metrics.mu.Unlock()
		if st.concurrent && op.Until > 0 {
			// real time (schedule driver): give the collector up to 3 s to reach the size it must reach
			for i := 0; i < 1500 && n != op.Until-1; i++ {
				time.Sleep(2 * time.Millisecond)
				st.metrics.mu.Lock()
				n, trk = st.metrics.grave[name], st.metrics.trk[name]
				st.metrics.mu.Unlock()
			}
		}
		return Ev{"op": "grave", "t": op.T, "quiet": op.Quiet, "n": n, "trackers": trk}
	}
	panic(fmt.Sprintf("drv_db: unknown op %q", op.Op))
}

func runDBScript(t *testing.T, sc Script, log *Log, next int) {
	synctest.Test(t, func(t *testing.T) {
		st := &dbState{
			metrics: &dbMetrics{grave: map[string]int{}, trk: map[string]int{}},
			tables:  map[int]*dbTable{},
			wtxns:   map[int]statedb.WriteTxn{},
			snaps:   map[int]statedb.ReadTxn{},
			chans:   map[int]<-chan struct{}{},
			iters:   map[int]*dbIter{},
			obs:     map[int]*dbObserver{},
			derived: map[int]bool{},
			tt:      t,
			dones:   map[string]func(statedb.WriteTxn){},
			open:    map[int]bool{},
			held:    map[int]int{},
		}
		st.db = statedb.New(statedb.WithMetrics(st.metrics))
		st.db.Start()
		log.Begin()
		for i, raw := range sc.Ops {
			var op dbOp
			if err := json.Unmarshal(raw, &op); err != nil {
				panic(err)
			}
			if i == 0 && op.Op == "config" {
				st.nilEmpty = op.NilEmpt
				log.Emit(Ev{"op": "nop", "what": "config"})
				continue
			}
			var ev Ev
			msg, panicked := protect(func() { ev = st.exec(op) })
			if panicked {
				log.Emit(Ev{"op": "panic", "during": op.Op, "msg": msg, "ctx": op.Ctx,
					"graveyard": strings.Contains(msg, "graveyard") || strings.Contains(msg, "Double deletion")})
				log.End(sc.ID)
				ExitAfterPanic(log, next)
			}
			log.Emit(ev)
		}
		log.End(sc.ID)
		// leave nothing behind: finish transactions, close iterators, stop the collector
		_, bad := protect(func() {
			for _, w := range st.wtxns {
				w.Abort()
			}
			for _, ob := range st.obs {
				ob.cancel()
				<-ob.done
			}
			if st.hive != nil {
				if err := st.hive.Stop(st.hlog, context.TODO()); err != nil {
					panic(err)
				}
			}
			for _, di := range st.iters {
				di.it.Close()
			}
		})
		if bad {
			// a panic while cleaning up taints the process just like one during the script
			ExitAfterPanic(log, next)
		}
		st.db.Stop()
	})
}

func init() {
	drivers["db"] = func(t *testing.T, scripts []Script, from int, log *Log) {
		for i := from; i < len(scripts); i++ {
			runDBScript(t, scripts[i], log, i+1)
		}
	}
}
