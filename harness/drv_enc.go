package harness

import (
	"encoding/json"
	"fmt"
	"testing"

	"github.com/cilium/statedb"
	"github.com/cilium/statedb/index"
	"github.com/cilium/statedb/lpm"
)

// drv_enc logs the outputs of the index key encoders for the inputs listed in
// the script. Every script is one table of calls of one kind.

type encOp struct {
	Op   string `json:"op"`
	S    []int  `json:"s"`
	P    []int  `json:"p"`
	W    int    `json:"w"`    // integer width in bits
	N    []int  `json:"n"`    // value as big-endian 16-bit limbs
	Kind string `json:"kind"` // inj: int16/int32/int64/bool/string
	Bits []int  `json:"bits"`
	Len  int    `json:"len"`
	Rep  int    `json:"rep"` // nuk: repeat the primary key pattern to this length
}

func limbsToUint(n []int) uint64 {
	var v uint64
	for _, l := range n {
		v = v<<16 | uint64(l&0xffff)
	}
	return v
}

func encExec(op encOp) Ev {
	switch op.Op {
	case "nuk":
		s, p := FromInts(op.S), FromInts(op.P)
		key := statedb.VerifEncodeNonUniqueKey(p, s)
		sec, pri := statedb.VerifSplitNonUniqueKey(key)
		return Ev{"op": "nuk", "s": ints(op.S), "p": ints(op.P), "key": B(key), "sec": B(sec), "pri": B(pri)}
	case "uint":
		v := limbsToUint(op.N)
		var key index.Key
		switch op.W {
		case 16:
			key = index.Uint16(uint16(v))
		case 32:
			key = index.Uint32(uint32(v))
		case 64:
			key = index.Uint64(v)
		default:
			panic("bad width")
		}
		return Ev{"op": "uint", "w": op.W, "n": ints(op.N), "key": B(key)}
	case "inj":
		v := limbsToUint(op.N)
		var key index.Key
		switch op.Kind {
		case "int16":
			key = index.Int16(int16(uint16(v)))
		case "int32":
			key = index.Int32(int32(uint32(v)))
		case "int64":
			key = index.Int64(int64(v))
		case "int":
			key = index.Int(int(int32(uint32(v))))
		case "bool":
			key = index.Bool(v != 0)
		case "string":
			key = index.String(string(FromInts(op.S)))
			return Ev{"op": "inj", "kind": op.Kind, "n": ints(op.S), "key": B(key)}
		default:
			panic("bad kind")
		}
		return Ev{"op": "inj", "kind": op.Kind, "n": ints(op.N), "key": B(key)}
	case "lpm":
		n := (len(op.Bits) + 7) / 8
		data := make([]byte, n)
		for i, b := range op.Bits {
			if b != 0 {
				data[i/8] |= 1 << (7 - uint(i%8))
			}
		}
		key := lpm.EncodeLPMKey(data, lpm.PrefixLen(op.Len))
		d, l := lpm.DecodeLPMKey(key)
		dbits := []int{}
		for i := 0; i < len(d)*8; i++ {
			dbits = append(dbits, int(d[i/8]>>(7-uint(i%8)))&1)
		}
		return Ev{"op": "lpm", "bits": ints(op.Bits), "len": op.Len, "key": B(key), "dbits": dbits, "dlen": int(l)}
	}
	panic(fmt.Sprintf("drv_enc: unknown op %q", op.Op))
}

func init() {
	drivers["enc"] = func(t *testing.T, scripts []Script, from int, log *Log) {
		for i := from; i < len(scripts); i++ {
			sc := scripts[i]
			log.Begin()
			bad := false
			for _, raw := range sc.Ops {
				var op encOp
				if err := json.Unmarshal(raw, &op); err != nil {
					panic(err)
				}
				var ev Ev
				msg, panicked := protect(func() { ev = encExec(op) })
				if panicked {
					log.Emit(Ev{"op": "panic", "during": op.Op, "msg": msg})
					bad = true
					break
				}
				log.Emit(ev)
			}
			log.End(sc.ID)
			if bad {
				ExitAfterPanic(log, i+1)
			}
		}
	}
}
