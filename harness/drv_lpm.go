package harness

import (
	"encoding/json"
	"fmt"
	"testing"

	"github.com/cilium/statedb/lpm"
)

// drv_lpm interprets scripts against lpm.Trie / lpm.Txn / lpm.Iterator.
// Prefixes are bit arrays in scripts and logs; they are converted to the
// (data, prefixLen) form at the API boundary. "junk" sets the bits beyond
// the prefix length in the data passed to EncodeLPMKey to one (the encoder
// must mask them).

type lpmOp struct {
	Op   string  `json:"op"`
	T    int     `json:"t"`
	X    int     `json:"x"`
	F    int     `json:"f"`
	P    []int   `json:"p"`
	V    int     `json:"v"`
	S    partSrc `json:"s"`
	Junk bool    `json:"junk"`
}

func bitsToKey(bits []int, junk bool) []byte {
	n := (len(bits) + 7) / 8
	data := make([]byte, n)
	for i, b := range bits {
		if b != 0 {
			data[i/8] |= 1 << (7 - uint(i%8))
		}
	}
	if junk && len(bits)%8 != 0 {
		data[n-1] |= 0xff >> uint(len(bits)%8)
	}
	return lpm.EncodeLPMKey(data, lpm.PrefixLen(len(bits)))
}

func keyToBits(key []byte) []int {
	data, plen := lpm.DecodeLPMKey(key)
	bits := make([]int, plen)
	for i := range bits {
		bits[i] = int(data[i/8]>>(7-uint(i%8))) & 1
	}
	return bits
}

type lpmState struct {
	tries map[int]*lpm.Trie[int]
	txns  map[int]*lpm.Txn[int]
	iters map[int]*lpm.Iterator[int]
}

func lpmItems(it *lpm.Iterator[int]) [][]any {
	out := [][]any{}
	it.All(func(k []byte, v int) bool {
		out = append(out, []any{keyToBits(k), v})
		return true
	})
	return out
}

type lpmReader interface {
	Lookup(key []byte) (int, bool)
	LookupExact(key []byte) (int, bool)
	Len() int
	All() *lpm.Iterator[int]
	Prefix(key []byte) *lpm.Iterator[int]
	LowerBound(key []byte) *lpm.Iterator[int]
}

type trieReader struct{ t *lpm.Trie[int] }

func (r trieReader) Lookup(k []byte) (int, bool)            { return r.t.Lookup(k) }
func (r trieReader) LookupExact(k []byte) (int, bool)       { return r.t.LookupExact(k) }
func (r trieReader) Len() int                               { return r.t.Len() }
func (r trieReader) All() *lpm.Iterator[int]                { return r.t.All() }
func (r trieReader) Prefix(k []byte) *lpm.Iterator[int]     { return r.t.Prefix(k) }
func (r trieReader) LowerBound(k []byte) *lpm.Iterator[int] { return r.t.LowerBound(k) }

type txnReader struct{ t *lpm.Txn[int] }

func (r txnReader) Lookup(k []byte) (int, bool)            { return r.t.Lookup(k) }
func (r txnReader) LookupExact(k []byte) (int, bool)       { return r.t.LookupExact(k) }
func (r txnReader) Len() int                               { return r.t.Len() }
func (r txnReader) All() *lpm.Iterator[int]                { return r.t.All() }
func (r txnReader) Prefix(k []byte) *lpm.Iterator[int]     { return r.t.Prefix(k) }
func (r txnReader) LowerBound(k []byte) *lpm.Iterator[int] { return r.t.LowerBound(k) }

func (st *lpmState) reader(s partSrc) (lpmReader, bool) {
	if s.Kind == "trie" {
		t, ok := st.tries[s.ID]
		return trieReader{t}, ok
	}
	x, ok := st.txns[s.ID]
	return txnReader{x}, ok
}

func (st *lpmState) exec(op lpmOp) []Ev {
	skip := []Ev{{"op": "nop", "what": op.Op}}
	if op.P == nil {
		op.P = []int{}
	}
	switch op.Op {
	case "new":
		t := lpm.New[int]()
		st.tries[op.T] = &t
		return []Ev{{"op": "new", "t": op.T}}
	case "begin":
		t, ok := st.tries[op.T]
		if !ok {
			return skip
		}
		st.txns[op.X] = t.Txn()
		return []Ev{{"op": "begin", "x": op.X, "t": op.T}}
	case "reuse":
		x, ok := st.txns[op.X]
		t, ok2 := st.tries[op.T]
		if !ok || !ok2 {
			return skip
		}
		x.Clear()
		x.Reuse(*t)
		return []Ev{{"op": "reuse", "x": op.X, "t": op.T}}
	case "insert":
		x, ok := st.txns[op.X]
		if !ok {
			return skip
		}
		err := x.Insert(bitsToKey(op.P, op.Junk), op.V)
		es := ""
		if err != nil {
			es = err.Error()
		}
		return []Ev{{"op": "insert", "x": op.X, "p": op.P, "v": op.V, "err": es}}
	case "delete":
		x, ok := st.txns[op.X]
		if !ok {
			return skip
		}
		v, found := x.Delete(bitsToKey(op.P, op.Junk))
		return []Ev{{"op": "delete", "x": op.X, "p": op.P, "found": found, "val": v}}
	case "exact", "lookup", "len", "all", "prefix", "lowerbound":
		r, ok := st.reader(op.S)
		if !ok {
			return skip
		}
		key := bitsToKey(op.P, op.Junk)
		switch op.Op {
		case "exact":
			v, found := r.LookupExact(key)
			return []Ev{{"op": "exact", "s": srcEv(op.S), "p": op.P, "found": found, "val": v}}
		case "lookup":
			v, found := r.Lookup(key)
			return []Ev{{"op": "lookup", "s": srcEv(op.S), "p": op.P, "found": found, "val": v}}
		case "len":
			return []Ev{{"op": "len", "s": srcEv(op.S), "n": r.Len()}}
		case "all":
			it := r.All()
			st.iters[op.F] = it
			return []Ev{{"op": "all", "s": srcEv(op.S), "f": op.F, "items": lpmItems(it)}}
		case "prefix":
			it := r.Prefix(key)
			st.iters[op.F] = it
			return []Ev{{"op": "prefix", "s": srcEv(op.S), "p": op.P, "f": op.F, "items": lpmItems(it)}}
		case "lowerbound":
			it := r.LowerBound(key)
			st.iters[op.F] = it
			return []Ev{{"op": "lowerbound", "s": srcEv(op.S), "p": op.P, "f": op.F, "items": lpmItems(it)}}
		}
	case "next":
		it, ok := st.iters[op.F]
		if !ok {
			return skip
		}
		k, v, ok2 := it.Next()
		item := []any{}
		if ok2 {
			item = []any{keyToBits(k), v}
		}
		return []Ev{{"op": "next", "f": op.F, "ok": ok2, "item": item}}
	case "iterall":
		it, ok := st.iters[op.F]
		if !ok {
			return skip
		}
		return []Ev{{"op": "iterall", "f": op.F, "items": lpmItems(it)}}
	case "commit":
		x, ok := st.txns[op.X]
		if !ok {
			return skip
		}
		t := x.Commit()
		st.tries[op.T] = &t
		return []Ev{{"op": "commit", "x": op.X, "t": op.T}}
	case "abandon":
		if _, ok := st.txns[op.X]; !ok {
			return skip
		}
		delete(st.txns, op.X)
		return []Ev{{"op": "abandon", "x": op.X}}
	}
	panic(fmt.Sprintf("drv_lpm: unknown op %q", op.Op))
}

func init() {
	drivers["lpm"] = func(t *testing.T, scripts []Script, from int, log *Log) {
		for i := from; i < len(scripts); i++ {
			sc := scripts[i]
			bad := false
			st := &lpmState{
				tries: map[int]*lpm.Trie[int]{},
				txns:  map[int]*lpm.Txn[int]{},
				iters: map[int]*lpm.Iterator[int]{},
			}
			log.Begin()
			for _, raw := range sc.Ops {
				var op lpmOp
				if err := json.Unmarshal(raw, &op); err != nil {
					panic(err)
				}
				var evs []Ev
				msg, panicked := protect(func() { evs = st.exec(op) })
				for _, ev := range evs {
					log.Emit(ev)
				}
				if panicked {
					log.Emit(Ev{"op": "panic", "during": op.Op, "msg": msg})
					bad = true
					break
				}
			}
			log.End(sc.ID)
			if bad {
				ExitAfterPanic(log, i+1)
			}
		}
	}
}
