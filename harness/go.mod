module verif/harness

go 1.25.0

require github.com/cilium/statedb v0.0.0

require go.yaml.in/yaml/v3 v3.0.4 // indirect

replace github.com/cilium/statedb => /repo
