package harness

import (
	"encoding/json"
	"fmt"
	"reflect"
	"testing"

	"github.com/cilium/statedb/part"
	"go.yaml.in/yaml/v3"
)

// drv_map interprets scripts against part.Map[string,int], part.MapTxn and
// part.Set[string]. Keys are logged as byte arrays.

type mapOp struct {
	Op   string  `json:"op"`
	I    int     `json:"i"`
	I2   int     `json:"i2"`
	J    int     `json:"j"`
	X    int     `json:"x"`
	K    []int   `json:"k"`
	V    int     `json:"v"`
	Kvs  [][]any `json:"kvs"`
	Vs   [][]int `json:"vs"`
	Take int     `json:"take"`
}

type mapState struct {
	maps map[int]part.Map[string, int]
	sets map[int]part.Set[string]
	txns map[int]part.MapTxn[string, int]
}

func skey(k []int) string { return string(FromInts(k)) }

func kvItems(seq func(func(string, int) bool), take int) [][]any {
	out := [][]any{}
	if take == 0 {
		return out
	}
	for k, v := range seq {
		out = append(out, []any{B([]byte(k)), v})
		if take > 0 && len(out) >= take {
			break
		}
	}
	return out
}

// richVal is a value type whose JSON/YAML decoding is sensitive to what the target already holds (slices are
// decoded in place, maps merged, absent fields kept): the round trip of a map is also made with these values,
// derived from the int values of the map under test.
type richVal struct {
	A []int          `json:"a" yaml:"a"`
	M map[string]int `json:"m,omitempty" yaml:"m,omitempty"`
	P *int           `json:"p,omitempty" yaml:"p,omitempty"`
	S string         `json:"s,omitempty" yaml:"s,omitempty"`
}

func richOf(v int) richVal {
	r := richVal{A: []int{v, v + 1, v * 2}[:1+((v%3)+3)%3]}
	if v%2 == 0 {
		r.M = map[string]int{"x": v, fmt.Sprint("k", v): 1}
	}
	if v%3 == 0 {
		p := v
		r.P = &p
	}
	if v%4 == 1 {
		r.S = fmt.Sprint("s", v)
	}
	return r
}

// richRoundTrip encodes and decodes m with rich values and reports whether every entry came back unchanged.
func richRoundTrip(m part.Map[string, int], enc func(any) ([]byte, error), dec func([]byte, any) error) bool {
	rm := part.Map[string, richVal]{}
	n := 0
	for k, v := range m.All() {
		rm = rm.Set(k, richOf(v))
		n++
	}
	bs, err := enc(rm)
	if err != nil {
		panic(err)
	}
	var rm2 part.Map[string, richVal]
	if err := dec(bs, &rm2); err != nil {
		panic(err)
	}
	if rm2.Len() != n {
		return false
	}
	for k, v := range m.All() {
		got, ok := rm2.Get(k)
		if !ok || !reflect.DeepEqual(got, richOf(v)) {
			return false
		}
	}
	return true
}

func (st *mapState) exec(op mapOp) Ev {
	nop := Ev{"op": "nop", "what": op.Op}
	k := skey(op.K)
	kk := ints(op.K)
	switch op.Op {
	case "mnew":
		st.maps[op.J] = part.Map[string, int]{}
		return Ev{"op": "mnew", "j": op.J}
	case "mset", "mdelete", "mfrom", "mget", "mlen", "mall", "mprefix", "mlower", "mtxn", "mjson", "myaml":
		m, ok := st.maps[op.I]
		if !ok {
			return nop
		}
		switch op.Op {
		case "mset":
			st.maps[op.J] = m.Set(k, op.V)
			return Ev{"op": "mset", "i": op.I, "k": kk, "v": op.V, "j": op.J}
		case "mdelete":
			st.maps[op.J] = m.Delete(k)
			return Ev{"op": "mdelete", "i": op.I, "k": kk, "j": op.J}
		case "mfrom":
			hm := map[string]int{}
			kvs := [][]any{}
			for _, kv := range op.Kvs {
				ki := []int{}
				for _, x := range kv[0].([]any) {
					ki = append(ki, int(x.(float64)))
				}
				v := int(kv[1].(float64))
				hm[skey(ki)] = v
				kvs = append(kvs, []any{ki, v})
			}
			st.maps[op.J] = part.FromMap(m, hm)
			return Ev{"op": "mfrom", "i": op.I, "kvs": kvs, "j": op.J}
		case "mget":
			v, found := m.Get(k)
			return Ev{"op": "mget", "i": op.I, "k": kk, "found": found, "val": v}
		case "mlen":
			return Ev{"op": "mlen", "i": op.I, "n": m.Len()}
		case "mall":
			return Ev{"op": "mall", "i": op.I, "take": op.Take, "items": kvItems(m.All(), op.Take)}
		case "mprefix":
			return Ev{"op": "mprefix", "i": op.I, "k": kk, "items": kvItems(m.Prefix(k), -1)}
		case "mlower":
			return Ev{"op": "mlower", "i": op.I, "k": kk, "items": kvItems(m.LowerBound(k), -1)}
		case "mtxn":
			st.txns[op.X] = m.Txn()
			return Ev{"op": "mtxn", "i": op.I, "x": op.X}
		case "mjson":
			bs, err := json.Marshal(m)
			if err != nil {
				panic(err)
			}
			var m2 part.Map[string, int]
			if err := json.Unmarshal(bs, &m2); err != nil {
				panic(err)
			}
			st.maps[op.J] = m2
			return Ev{"op": "mjson", "i": op.I, "j": op.J, "eq": m.SlowEqual(m2) && m2.SlowEqual(m) &&
				richRoundTrip(m, json.Marshal, json.Unmarshal)}
		case "myaml":
			bs, err := yaml.Marshal(m)
			if err != nil {
				panic(err)
			}
			var m2 part.Map[string, int]
			if err := yaml.Unmarshal(bs, &m2); err != nil {
				panic(err)
			}
			st.maps[op.J] = m2
			return Ev{"op": "myaml", "i": op.I, "j": op.J, "eq": m.SlowEqual(m2) && m2.SlowEqual(m) &&
				richRoundTrip(m, yaml.Marshal, yaml.Unmarshal)}
		}
	case "meqkeys", "mslow":
		a, ok := st.maps[op.I]
		b, ok2 := st.maps[op.J]
		if !ok || !ok2 {
			return nop
		}
		eq := false
		if op.Op == "meqkeys" {
			eq = a.EqualKeys(b)
		} else {
			eq = a.SlowEqual(b)
		}
		return Ev{"op": op.Op, "i": op.I, "j": op.J, "eq": eq}
	case "tset", "tdel", "tget", "tlen", "tall", "tprefix", "tlower", "tcommit":
		x, ok := st.txns[op.X]
		if !ok {
			return nop
		}
		switch op.Op {
		case "tset":
			x.Set(k, op.V)
			return Ev{"op": "tset", "x": op.X, "k": kk, "v": op.V}
		case "tdel":
			return Ev{"op": "tdel", "x": op.X, "k": kk, "found": x.Delete(k)}
		case "tget":
			v, found := x.Get(k)
			return Ev{"op": "tget", "x": op.X, "k": kk, "found": found, "val": v}
		case "tlen":
			return Ev{"op": "tlen", "x": op.X, "n": x.Len()}
		case "tall":
			return Ev{"op": "tall", "x": op.X, "items": kvItems(x.All(), -1)}
		case "tprefix":
			return Ev{"op": "tprefix", "x": op.X, "k": kk, "items": kvItems(x.Prefix(k), -1)}
		case "tlower":
			return Ev{"op": "tlower", "x": op.X, "k": kk, "items": kvItems(x.LowerBound(k), -1)}
		case "tcommit":
			st.maps[op.J] = x.Commit()
			return Ev{"op": "tcommit", "x": op.X, "j": op.J}
		}
	case "snew":
		vs := []string{}
		for _, v := range op.Vs {
			vs = append(vs, skey(v))
		}
		st.sets[op.J] = part.NewSet(vs...)
		return Ev{"op": "snew", "vs": intss(op.Vs), "j": op.J}
	case "sset", "sdelete", "shas", "slen", "sall", "sjson", "syaml":
		s, ok := st.sets[op.I]
		if !ok {
			return nop
		}
		switch op.Op {
		case "sset":
			st.sets[op.J] = s.Set(k)
			return Ev{"op": "sset", "i": op.I, "k": kk, "j": op.J}
		case "sdelete":
			st.sets[op.J] = s.Delete(k)
			return Ev{"op": "sdelete", "i": op.I, "k": kk, "j": op.J}
		case "shas":
			return Ev{"op": "shas", "i": op.I, "k": kk, "found": s.Has(k)}
		case "slen":
			return Ev{"op": "slen", "i": op.I, "n": s.Len()}
		case "sall":
			items := [][]int{}
			if op.Take != 0 {
				for v := range s.All() {
					items = append(items, B([]byte(v)))
					if op.Take > 0 && len(items) >= op.Take {
						break
					}
				}
			}
			return Ev{"op": "sall", "i": op.I, "take": op.Take, "items": items}
		case "sjson":
			bs, err := json.Marshal(s)
			if err != nil {
				panic(err)
			}
			var s2 part.Set[string]
			if err := json.Unmarshal(bs, &s2); err != nil {
				panic(err)
			}
			st.sets[op.J] = s2
			return Ev{"op": "sjson", "i": op.I, "j": op.J, "eq": s.Equal(s2) && s2.Equal(s)}
		case "syaml":
			bs, err := yaml.Marshal(s)
			if err != nil {
				panic(err)
			}
			var s2 part.Set[string]
			if err := yaml.Unmarshal(bs, &s2); err != nil {
				panic(err)
			}
			st.sets[op.J] = s2
			return Ev{"op": "syaml", "i": op.I, "j": op.J, "eq": s.Equal(s2) && s2.Equal(s)}
		}
	case "sunion", "sdiff", "sequal":
		a, ok := st.sets[op.I]
		b, ok2 := st.sets[op.I2]
		if !ok || !ok2 {
			return nop
		}
		switch op.Op {
		case "sunion":
			st.sets[op.J] = a.Union(b)
			return Ev{"op": "sunion", "i": op.I, "i2": op.I2, "j": op.J}
		case "sdiff":
			st.sets[op.J] = a.Difference(b)
			return Ev{"op": "sdiff", "i": op.I, "i2": op.I2, "j": op.J}
		case "sequal":
			return Ev{"op": "sequal", "i": op.I, "i2": op.I2, "eq": a.Equal(b)}
		}
	}
	panic(fmt.Sprintf("drv_map: unknown op %q", op.Op))
}

func init() {
	drivers["map"] = func(t *testing.T, scripts []Script, from int, log *Log) {
		for i := from; i < len(scripts); i++ {
			sc := scripts[i]
			st := &mapState{
				maps: map[int]part.Map[string, int]{},
				sets: map[int]part.Set[string]{},
				txns: map[int]part.MapTxn[string, int]{},
			}
			log.Begin()
			bad := false
			for _, raw := range sc.Ops {
				var op mapOp
				if err := json.Unmarshal(raw, &op); err != nil {
					panic(err)
				}
				var ev Ev
				msg, panicked := protect(func() { ev = st.exec(op) })
				if panicked {
					log.Emit(Ev{"op": "panic", "during": op.Op, "msg": msg})
					bad = true
					break
				}
				log.Emit(ev)
			}
			log.End(sc.ID)
			if bad {
				ExitAfterPanic(log, i+1)
			}
		}
	}
}
