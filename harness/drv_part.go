package harness

import (
	"encoding/json"
	"fmt"
	"testing"

	"github.com/cilium/statedb/part"
)

// drv_part interprets scripts against part.Tree / part.Txn / part.Iterator.
// Values are ints. Every public result is logged; the trace specification
// (spec/trace/PartTrace.tla) recomputes each of them from PartTree.tla.

type partSrc struct {
	Kind string `json:"kind"`
	ID   int    `json:"id"`
}

type partOp struct {
	Op   string  `json:"op"`
	T    int     `json:"t"`
	X    int     `json:"x"`
	F    int     `json:"f"`
	W    int     `json:"w"`
	NT   int     `json:"nt"`
	Ro   bool    `json:"ro"`
	Lin  bool    `json:"lin"`
	K    []int   `json:"k"`
	V    int     `json:"v"`
	S    partSrc `json:"s"`
	At   int     `json:"at"`
	Kind string  `json:"kind"`
}

func mergeVal(o, n int) int { return (o*3 + n) % 11 }

type partState struct {
	trees map[int]*part.Tree[int]
	txns  map[int]*part.Txn[int]
	iters map[int]*part.Iterator[int]
	chans map[int]<-chan struct{}
	order []int // channel ids in hand-out order
	synth int   // synthetic txn ids for one-shot tree operations
}

func itemsOf(it part.Iterator[int]) [][]any {
	out := [][]any{}
	it.All(func(k []byte, v int) bool {
		out = append(out, []any{B(k), v})
		return true
	})
	return out
}

func (st *partState) ops(s partSrc) (part.Ops[int], bool) {
	if s.Kind == "tree" {
		t, ok := st.trees[s.ID]
		return t, ok
	}
	x, ok := st.txns[s.ID]
	return x, ok
}

func srcEv(s partSrc) map[string]any { return map[string]any{"kind": s.Kind, "id": s.ID} }

func (st *partState) track(w int, ch <-chan struct{}) bool {
	if w == 0 {
		return false
	}
	st.chans[w] = ch
	st.order = append(st.order, w)
	return isClosed(ch)
}

func (st *partState) closedList() []int {
	out := []int{}
	for _, id := range st.order {
		if isClosed(st.chans[id]) {
			out = append(out, id)
		}
	}
	return out
}

func runPartScript(sc Script, log *Log) (panicked bool) {
	st := &partState{
		trees: map[int]*part.Tree[int]{},
		txns:  map[int]*part.Txn[int]{},
		iters: map[int]*part.Iterator[int]{},
		chans: map[int]<-chan struct{}{},
		synth: 1000,
	}
	log.Begin()
	defer log.End(sc.ID)
	for _, raw := range sc.Ops {
		var op partOp
		if err := json.Unmarshal(raw, &op); err != nil {
			panic(err)
		}
		var evs []Ev
		msg, p := protect(func() { evs = st.exec(op) })
		for _, ev := range evs {
			log.Emit(ev)
		}
		if p {
			log.Emit(Ev{"op": "panic", "during": op.Op, "msg": msg})
			return true
		}
	}
	return false
}

func (st *partState) exec(op partOp) []Ev {
	key := FromInts(op.K)
	skip := []Ev{{"op": "nop", "what": op.Op}}
	switch op.Op {
	case "new":
		var t part.Tree[int]
		if op.Ro {
			t = part.New[int](part.RootOnlyWatch)
		} else {
			t = part.New[int]()
		}
		st.trees[op.T] = &t
		return []Ev{{"op": "new", "t": op.T, "ro": op.Ro}}
	case "begin":
		t, ok := st.trees[op.T]
		if !ok {
			return skip
		}
		st.txns[op.X] = t.Txn()
		return []Ev{{"op": "begin", "x": op.X, "t": op.T, "lin": op.Lin}}
	case "insert":
		x, ok := st.txns[op.X]
		if !ok {
			return skip
		}
		var old int
		var had, wc bool
		if op.W != 0 {
			var w <-chan struct{}
			old, had, w = x.InsertWatch(key, op.V)
			wc = st.track(op.W, w)
		} else {
			old, had = x.Insert(key, op.V)
		}
		return []Ev{{"op": "insert", "x": op.X, "k": op.K, "v": op.V, "w": op.W, "wc": wc, "had": had, "old": old}}
	case "modify":
		x, ok := st.txns[op.X]
		if !ok {
			return skip
		}
		var old, nv int
		var had, wc bool
		if op.W != 0 {
			var w <-chan struct{}
			old, nv, had, w = x.ModifyWatch(key, op.V, mergeVal)
			wc = st.track(op.W, w)
		} else {
			old, nv, had = x.Modify(key, op.V, mergeVal)
		}
		return []Ev{{"op": "modify", "x": op.X, "k": op.K, "v": op.V, "w": op.W, "wc": wc, "had": had, "old": old, "new": nv}}
	case "delete":
		x, ok := st.txns[op.X]
		if !ok {
			return skip
		}
		old, had := x.Delete(key)
		return []Ev{{"op": "delete", "x": op.X, "k": op.K, "had": had, "old": old}}
	case "get":
		o, ok := st.ops(op.S)
		if !ok {
			return skip
		}
		v, w, found := o.Get(key)
		wc := st.track(op.W, w)
		return []Ev{{"op": "get", "s": srcEv(op.S), "k": op.K, "w": op.W, "wc": wc, "found": found, "val": v}}
	case "len":
		o, ok := st.ops(op.S)
		if !ok {
			return skip
		}
		return []Ev{{"op": "len", "s": srcEv(op.S), "n": o.Len()}}
	case "rootwatch":
		o, ok := st.ops(op.S)
		if !ok {
			return skip
		}
		wc := st.track(op.W, o.RootWatch())
		return []Ev{{"op": "rootwatch", "s": srcEv(op.S), "w": op.W, "wc": wc}}
	case "prefix":
		o, ok := st.ops(op.S)
		if !ok {
			return skip
		}
		it, w := o.Prefix(key)
		wc := st.track(op.W, w)
		st.iters[op.F] = &it
		return []Ev{{"op": "prefix", "s": srcEv(op.S), "k": op.K, "f": op.F, "w": op.W, "wc": wc, "items": itemsOf(it)}}
	case "lowerbound":
		o, ok := st.ops(op.S)
		if !ok {
			return skip
		}
		it := o.LowerBound(key)
		st.iters[op.F] = &it
		return []Ev{{"op": "lowerbound", "s": srcEv(op.S), "k": op.K, "f": op.F, "items": itemsOf(it)}}
	case "iterator":
		o, ok := st.ops(op.S)
		if !ok {
			return skip
		}
		it := o.Iterator()
		st.iters[op.F] = &it
		return []Ev{{"op": "iterator", "s": srcEv(op.S), "f": op.F, "items": itemsOf(it)}}
	case "all":
		items := [][]any{}
		yield := func(k []byte, v int) bool {
			items = append(items, []any{B(k), v})
			return true
		}
		if op.S.Kind == "tree" {
			t, ok := st.trees[op.S.ID]
			if !ok {
				return skip
			}
			t.All(yield)
		} else {
			x, ok := st.txns[op.S.ID]
			if !ok {
				return skip
			}
			x.All(yield)
		}
		return []Ev{{"op": "all", "s": srcEv(op.S), "items": items}}
	case "allw":
		// Txn.All with a callback that writes to the same transaction at element number At
		x, ok := st.txns[op.X]
		if !ok {
			return skip
		}
		items := [][]any{}
		n := 0
		x.All(func(k []byte, v int) bool {
			items = append(items, []any{B(k), v})
			n++
			if n == op.At {
				if op.Kind == "insert" {
					x.Insert(key, op.V)
				} else {
					x.Delete(key)
				}
			}
			return true
		})
		return []Ev{{"op": "allw", "x": op.X, "at": op.At, "kind": op.Kind, "k": op.K, "v": op.V, "items": items}}
	case "next":
		it, ok := st.iters[op.F]
		if !ok {
			return skip
		}
		k, v, ok2 := it.Next()
		item := []any{}
		if ok2 {
			item = []any{B(k), v}
		}
		return []Ev{{"op": "next", "f": op.F, "ok": ok2, "item": item}}
	case "iterall":
		it, ok := st.iters[op.F]
		if !ok {
			return skip
		}
		return []Ev{{"op": "iterall", "f": op.F, "items": itemsOf(*it)}}
	case "clone":
		x, ok := st.txns[op.X]
		if !ok {
			return skip
		}
		t := x.Clone()
		st.trees[op.T] = &t
		return []Ev{{"op": "clone", "x": op.X, "t": op.T}}
	case "commit":
		x, ok := st.txns[op.X]
		if !ok {
			return skip
		}
		t := x.Commit()
		st.trees[op.T] = &t
		return []Ev{{"op": "commit", "x": op.X, "t": op.T}, {"op": "chans", "closed": st.closedList()}}
	case "notify":
		x, ok := st.txns[op.X]
		if !ok {
			return skip
		}
		x.Notify()
		delete(st.txns, op.X)
		return []Ev{{"op": "notify", "x": op.X}, {"op": "chans", "closed": st.closedList()}}
	case "commitnotify":
		x, ok := st.txns[op.X]
		if !ok {
			return skip
		}
		t := x.CommitAndNotify()
		st.trees[op.T] = &t
		delete(st.txns, op.X)
		return []Ev{{"op": "commitnotify", "x": op.X, "t": op.T}, {"op": "chans", "closed": st.closedList()}}
	case "abandon":
		if _, ok := st.txns[op.X]; !ok {
			return skip
		}
		delete(st.txns, op.X)
		return []Ev{{"op": "abandon", "x": op.X}, {"op": "chans", "closed": st.closedList()}}
	case "chans":
		return []Ev{{"op": "chans", "closed": st.closedList()}}
	case "tinsert", "tmodify", "tdelete":
		// one-shot Tree operation = Txn + op + CommitAndNotify: three events
		t, ok := st.trees[op.T]
		if !ok {
			return skip
		}
		st.synth++
		x := st.synth
		evs := []Ev{{"op": "begin", "x": x, "t": op.T, "lin": op.Lin}}
		var nt part.Tree[int]
		switch op.Op {
		case "tinsert":
			old, had, t2 := t.Insert(key, op.V)
			nt = t2
			evs = append(evs, Ev{"op": "insert", "x": x, "k": op.K, "v": op.V, "w": 0, "wc": false, "had": had, "old": old})
		case "tmodify":
			old, had, t2 := t.Modify(key, op.V, mergeVal)
			nt = t2
			nv := op.V
			if had {
				nv = mergeVal(old, op.V)
			}
			// the one-shot API does not return the merged value; it is read back
			if got, _, ok := t2.Get(key); ok {
				nv = got
			}
			evs = append(evs, Ev{"op": "modify", "x": x, "k": op.K, "v": op.V, "w": 0, "wc": false, "had": had, "old": old, "new": nv})
		case "tdelete":
			old, had, t2 := t.Delete(key)
			nt = t2
			evs = append(evs, Ev{"op": "delete", "x": x, "k": op.K, "had": had, "old": old})
		}
		st.trees[op.NT] = &nt
		evs = append(evs, Ev{"op": "commitnotify", "x": x, "t": op.NT}, Ev{"op": "chans", "closed": st.closedList()})
		return evs
	}
	panic(fmt.Sprintf("drv_part: unknown op %q", op.Op))
}

func init() {
	drivers["part"] = func(t *testing.T, scripts []Script, from int, log *Log) {
		for i := from; i < len(scripts); i++ {
			if runPartScript(scripts[i], log) {
				ExitAfterPanic(log, i+1)
			}
		}
	}
}
