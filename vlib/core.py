"""Infrastructure shared by all checks: Go build, TLC runs, script/trace plumbing,
evidence, known findings, replay files."""
import hashlib
import json
import os
import random
import re
import shutil
import subprocess
import sys
import tempfile
import time

VERIF = os.path.dirname(os.path.dirname(os.path.abspath(__file__)))
REPO = os.environ.get("VERIF_REPO", "/repo")
SPEC = os.path.join(VERIF, "spec")
BUILD = os.path.join(VERIF, ".build")
TLA_CP = "/opt/veriftools/tla/tla2tools.jar:/opt/veriftools/tla/CommunityModules-deps.jar"


class MachineryError(Exception):
    pass


def log(*a):
    print(*a, file=sys.stderr, flush=True)


# --------------------------------------------------------------------------- Go

def find_go():
    cands = [
        "/root/go/pkg/mod/golang.org/toolchain@v0.0.1-go1.25.0.linux-amd64/bin/go",
        shutil.which("go1.26") or "",
        shutil.which("go1.26.8") or "",
        "/opt/veriftools/go1.26.8/bin/go",
        shutil.which("go") or "",
    ]
    for c in cands:
        if c and os.path.exists(c):
            return c
    raise MachineryError("no Go toolchain found")


def go_env():
    env = dict(os.environ)
    env.update(GOFLAGS="-mod=mod", GOPROXY="off", GOSUMDB="off", GOTOOLCHAIN="local",
               CGO_ENABLED=env.get("CGO_ENABLED", "0"))
    return env


_built = {}
_build_lock = __import__("threading").Lock()


def build_harness(race=False):
    """(Re)build the harness test binary against the current working tree of /repo."""
    with _build_lock:
        return _build_harness(race)


def _build_harness(race=False):
    key = "race" if race else "norace"
    if key in _built:
        return _built[key]
    os.makedirs(BUILD, exist_ok=True)
    # one binary per process: several checks may run side by side
    out = os.path.join(BUILD, f"harness-{'race-' if race else ''}{os.getpid()}.test")
    __import__("atexit").register(lambda f=out: os.path.exists(f) and os.remove(f))
    hdir = os.path.join(VERIF, "harness")
    # the harness module needs the repository's go.sum
    shutil.copyfile(os.path.join(REPO, "go.sum"), os.path.join(hdir, "go.sum"))
    env = go_env()
    # the harness module replaces the library by the tree under test (/repo unless VERIF_REPO is set,
    # which background runs on a snapshot use)
    want = f"replace github.com/cilium/statedb => {REPO}"
    gm = open(os.path.join(hdir, "go.mod")).read()
    if want not in gm:
        subprocess.run([find_go(), "mod", "edit", f"-replace=github.com/cilium/statedb={REPO}"], cwd=hdir, env=env, check=True)
    cmd = [find_go(), "test", "-c", "-tags", "verif", "-o", out]
    if race:
        env["CGO_ENABLED"] = "1"
        cmd.append("-race")
    cmd.append(".")
    t0 = time.time()
    p = subprocess.run(cmd, cwd=hdir, env=env, capture_output=True, text=True)
    if p.returncode != 0:
        raise MachineryError("harness build failed:\n" + p.stdout + p.stderr)
    log(f"[build] harness ({key}) {time.time()-t0:.1f}s")
    _built[key] = out
    return out


def crash_kind(out):
    """Classify the death of a harness process: "deadlock" (every goroutine blocked), "statedb" (a panic or fatal
    error raised on a goroutine whose innermost non-runtime frame is code of the library) or None (anything else,
    e.g. a defect of the harness itself, which must never be reported as a violation)."""
    if "fatal error: all goroutines are asleep - deadlock!" in out:
        return "deadlock"
    if "panic:" not in out and "fatal error:" not in out:
        return None
    lines = out.splitlines()
    for i, ln in enumerate(lines):
        if ln.startswith("goroutine ") and "[running" in ln:
            for fr in lines[i + 1:i + 60]:
                if not fr.strip():
                    break
                if fr.startswith(("\t", " ")):
                    continue                      # file:line of the frame above
                fn = fr.split("(")[0]
                if fn.startswith(("runtime.", "runtime/", "internal/", "panic", "sync.", "sync/", "testing.",
                                  "iter.", "maps.", "slices.", "sort.", "reflect.", "created by")):
                    continue
                if "github.com/cilium/statedb" in fn:
                    return "statedb"
                return None
    return None


def run_harness(driver, scripts_path, outdir, race=False, timeout=1800, extra_env=None, tag=""):
    """Execute scripts on the real code. Returns (trace_path, bounds_path, ntraces, nevents).
    When the code under test panics the harness logs the panic, exits with status 75 and is
    resumed with the next script in a fresh process."""
    binp = build_harness(race)
    trace = os.path.join(outdir, f"{driver}{tag}.trace.ndjson")
    bounds = os.path.join(outdir, f"{driver}{tag}.bounds.ndjson")
    env = go_env()
    env.update(VERIF_DRIVER=driver, VERIF_SCRIPTS=scripts_path, VERIF_TRACE=trace, VERIF_BOUNDS=bounds)
    if extra_env:
        env.update(extra_env)
    t0 = time.time()
    restarts = 0
    reran = False
    while True:
        try:
            p = subprocess.run([binp, "-test.run", "^TestDriver$", "-test.timeout", "0", "-test.count", "1"],
                               cwd=outdir, env=env, capture_output=True, text=True, timeout=timeout)
        except subprocess.TimeoutExpired:
            raise MachineryError(f"harness driver {driver} timed out after {timeout}s")
        if race and "WARNING: DATA RACE" in (p.stdout + p.stderr) and "cilium/statedb" in (p.stdout + p.stderr):
            # the race detector saw an unsynchronised access inside statedb: record it in the last trace
            note = json.dumps({"op": "race", "report": (p.stdout + p.stderr)[(p.stdout + p.stderr).index("WARNING: DATA RACE"):][:1500]})
            tl = read_lines(trace) if os.path.exists(trace) else []
            bl = read_lines(bounds) if os.path.exists(bounds) else []
            if bl:
                last = json.loads(bl[-1])
                tl.append(note)
                last["e"] = len(tl)
                bl[-1] = json.dumps(last)
                open(trace, "w").write("\n".join(tl) + "\n")
                open(bounds, "w").write("\n".join(bl) + "\n")
                if p.returncode not in (0, 75):
                    p = subprocess.CompletedProcess(p.args, 0, p.stdout, p.stderr)
        if p.returncode == 75 and os.path.exists(trace + ".resume"):
            env["VERIF_RESUME_FROM"] = open(trace + ".resume").read().strip()
            os.remove(trace + ".resume")
            restarts += 1
            if restarts > 5000:
                raise MachineryError("harness restarted too often")
            continue
        if p.returncode != 0:
            out = p.stdout + p.stderr
            crashed = crash_kind(out)
            if crashed and not env.get("VERIF_FLUSH") and not reran:
                # the events of the run were buffered: run the same scripts again, flushing every event, so
                # that the trace up to the crash exists and the crash can be judged by the specification
                reran = True
                env["VERIF_FLUSH"] = "1"
                env.pop("VERIF_RESUME_FROM", None)
                for f in (trace, bounds, trace + ".resume"):
                    if os.path.exists(f):
                        os.remove(f)
                continue
            if crashed and restarts < 200:
                # the process died inside the code under test (a panic on a goroutine the harness does not
                # own, or a fatal runtime error): close the unfinished trace with a crash event and resume
                restarts += 1
                blines = read_lines(bounds) if os.path.exists(bounds) else []
                done = len(blines)
                last_e = json.loads(blines[-1])["e"] if blines else 0
                tl = open(trace).read().split("\n") if os.path.exists(trace) else []
                complete = [x for x in tl[:-1]] if tl else []
                ids = [json.loads(x)["id"] for x in read_lines(scripts_path)]
                msg = [ln for ln in out.splitlines() if ln.startswith("panic:") or ln.startswith("fatal error:")][:1]
                crash_ev = json.dumps({"op": "panic", "during": "crash", "msg": (msg[0] if msg else "crash")[:200], "ctx": "process",
                                       "kind": crashed})
                with open(trace, "w") as f:
                    f.write("\n".join(complete + [crash_ev]) + "\n")
                with open(bounds, "a") as f:
                    f.write(json.dumps({"s": last_e + 1, "e": len(complete) + 1, "id": ids[done]}) + "\n")
                env["VERIF_RESUME_FROM"] = str(done + 1)
                if done + 1 >= len(ids):
                    break
                continue
            raise MachineryError(f"harness driver {driver} failed (exit {p.returncode}):\n" + _head_tail(out))
        break
    n = sum(1 for _ in open(bounds))
    nev = sum(1 for _ in open(trace))
    return trace, bounds, n, nev


# -------------------------------------------------------------------------- TLC

def _stage(dirs, scratch):
    for d in dirs:
        for f in os.listdir(d):
            if f.endswith(".tla") or f.endswith(".cfg"):
                shutil.copyfile(os.path.join(d, f), os.path.join(scratch, f))


def JVM_FLAGS(workers):
    # many single-worker TLC processes run side by side: keep each JVM small
    if workers == 1:
        return ["-XX:+UseSerialGC", "-XX:CICompilerCount=2", "-XX:-UsePerfData"]
    return ["-XX:+UseParallelGC"]


STATS_RE = re.compile(r"(\d+) states generated, (\d+) distinct states found, (\d+) states left on queue")


def tlc(module, cfg=None, subdir=None, workers=1, heap="4g", timeout=900, env=None, simulate=None,
        seed=None, depth=None, scratch_root=None, want_stdout=True, extra=None):
    """Run TLC on spec/<subdir>/<module>.tla in a scratch copy. Returns dict(stdout, generated,
    distinct, ok, violated)."""
    scratch = tempfile.mkdtemp(prefix="tlc-", dir=scratch_root)
    try:
        dirs = [SPEC]
        if subdir:
            dirs.append(os.path.join(SPEC, subdir))
        _stage(dirs, scratch)
        # (TLC creates a temporary directory of its own per run and leaves it behind: keep it inside the scratch)
        os.makedirs(os.path.join(scratch, "jtmp"), exist_ok=True)
        cmd = ["java"] + JVM_FLAGS(workers) + [f"-Xmx{heap}", "-Xss64m", f"-Djava.io.tmpdir={os.path.join(scratch, 'jtmp')}",
               "-cp", TLA_CP, "tlc2.TLC",
               "-workers", str(workers), "-metadir", os.path.join(scratch, "meta"),
               "-noGenerateSpecTE"]
        if cfg:
            cmd += ["-config", cfg]
        if simulate:
            cmd += ["-simulate", simulate]
        if depth:
            cmd += ["-depth", str(depth)]
        if seed is not None:
            cmd += ["-seed", str(seed)]
        if extra:
            cmd += extra
        cmd.append(module + ".tla")
        e = dict(os.environ)
        if env:
            e.update(env)
        t0 = time.time()
        try:
            p = subprocess.run(cmd, cwd=scratch, env=e, capture_output=True, text=True, timeout=timeout)
        except subprocess.TimeoutExpired:
            raise MachineryError(f"TLC timeout after {timeout}s on {module}")
        out = p.stdout
        if os.environ.get("VERIF_DEBUG_DIR"):
            with open(os.path.join(os.environ["VERIF_DEBUG_DIR"], f"tlc-{module}-{int(time.time()*1000)}.out"), "w") as df:
                df.write(out)
        m = None
        for m in STATS_RE.finditer(out):
            pass
        res = dict(stdout=out if want_stdout else "", rc=p.returncode, wall=time.time() - t0,
                   generated=int(m.group(1)) if m else 0, distinct=int(m.group(2)) if m else 0,
                   left=int(m.group(3)) if m else -1)
        res["violated"] = ("Error: Invariant" in out) or ("is violated" in out) or ("Error: Deadlock" in out) \
            or ("Temporal properties were violated" in out) or ("was violated" in out) or ("Error: Action property" in out)
        res["ok"] = ("Model checking completed. No error has been found." in out) or \
                    (simulate is not None and p.returncode == 0 and not res["violated"])
        if not res["ok"] and not res["violated"]:
            res["error"] = out[-3000:] + p.stderr[-1000:]
        return res
    finally:
        shutil.rmtree(scratch, ignore_errors=True)


def tla_unquote(s):
    return json.loads('"' + s + '"')


SCRIPT_RE = re.compile(r'^<<\s*"SCRIPT",\s*"(.*?)"\s*>>$', re.M | re.S)
ALSO_RE = re.compile(r'^<<\s*"ALSO",\s*(-?\d+),\s*(\d+),\s*"([^"]*)"\s*>>$', re.M)
VERDICT_RE = re.compile(r'^<<\s*"VERDICT",\s*(-?\d+),\s*(\d+),\s*"([^"]*)",\s*"(.*?)"\s*>>$', re.M | re.S)


def scripts_from_tlc(stdout):
    """Extract the printed scripts (lists of op dicts)."""
    return [json.loads(tla_unquote(m.group(1))) for m in SCRIPT_RE.finditer(stdout)]


def drop_prefixes(scripts):
    """Remove scripts that are proper prefixes of another script (BFS prints every path)."""
    keyed = sorted(([json.dumps(op, sort_keys=True) for op in s] for s in scripts))
    keep = []
    for i, k in enumerate(keyed):
        if i + 1 < len(keyed):
            nxt = keyed[i + 1]
            if len(nxt) >= len(k) and nxt[:len(k)] == k:
                continue
        keep.append([json.loads(x) for x in k])
    return keep


def write_scripts(scripts, path, start_id=1):
    with open(path, "w") as f:
        for i, ops in enumerate(scripts):
            f.write(json.dumps({"id": start_id + i, "ops": ops}, separators=(",", ":")) + "\n")
    return len(scripts)


def _validate_one(trace_module, trace, bounds, heap, timeout, cfg):
    return tlc(trace_module, cfg=cfg or (trace_module + ".cfg"), subdir="trace", workers=1, heap=heap,
               timeout=timeout, env={"VERIF_TRACE": trace, "VERIF_BOUNDS": bounds})


def validate(trace_module, trace, bounds, ntraces, heap="4g", timeout=1800, cfg=None, nevents=0,
             allow_incomplete=False):
    """Run the trace specification over a log (sharded over parallel TLC processes when the log is
    large; each shard gets its own bounds file). Returns (verdicts: {id: (line, inv)}, stats)."""
    from concurrent.futures import ThreadPoolExecutor
    shards = 1
    if nevents > 15000:
        shards = min(8, max(2, nevents // 15000), ntraces)
    bfiles = [bounds]
    if shards > 1:
        lines = read_lines(bounds)
        # longest traces first, round robin, to balance the shards
        lines.sort(key=lambda ln: -(json.loads(ln)["e"] - json.loads(ln)["s"]))
        bfiles = []
        for i in range(shards):
            bf = f"{bounds}.{i}"
            with open(bf, "w") as f:
                f.write("\n".join(lines[i::shards]) + "\n")
            bfiles.append(bf)
    with ThreadPoolExecutor(max_workers=shards) as ex:
        rs = list(ex.map(lambda bf: _validate_one(trace_module, trace, bf, heap, timeout, cfg), bfiles))
    verdicts = {}
    agg = dict(distinct=0, generated=0, wall=0.0)
    for r in rs:
        for line in r["stdout"].splitlines():
            m = VERDICT_RE.match(line)
            if m:
                verdicts[int(m.group(1))] = (int(m.group(2)), m.group(3), m.group(4))
        if not r["ok"]:
            raise MachineryError(f"trace validation ({trace_module}) did not complete:\n" + r["stdout"][-3000:])
        agg["distinct"] += r["distinct"]
        agg["generated"] += r["generated"]
        agg["wall"] = max(agg["wall"], r["wall"])
    if len(verdicts) != ntraces and not allow_incomplete:
        # a trace that the specification could not consume completely (an action guard refused an
        # event) produces no verdict: that is a defect of the generator/harness, never a violation
        raise MachineryError(f"trace validation ({trace_module}): {len(verdicts)} verdicts for {ntraces} traces "
                             "(some trace was not consumed completely)\n" + rs[0]["stdout"][-1500:])
    log(f"[validate] {trace_module}: traces={ntraces} states={agg['distinct']} shards={shards} {agg['wall']:.1f}s")
    return verdicts, agg


# ------------------------------------------------------------ known findings etc.

def load_known():
    p = os.path.join(VERIF, "known_findings.json")
    if not os.path.exists(p):
        return []
    return json.load(open(p)).get("findings", [])


def match_known(prop, inv, ev, known):
    """A known finding matches on property, invariant name and the listed event fields."""
    for k in known:
        if k.get("status") != "known" or k.get("property") != prop:
            continue
        sig = k.get("signature", {})
        if sig.get("invariant") and sig["invariant"] != inv:
            continue
        ok = True
        for fk, fv in sig.get("event", {}).items():
            if ev is None or ev.get(fk) != fv:
                ok = False
                break
        if ok:
            return k
    return None


def _head_tail(out, n=2500):
    """the first lines that name a panic/fatal error plus head and tail of the output"""
    key = [ln for ln in out.splitlines() if ln.startswith(("panic:", "fatal error:", "--- FAIL", "FAIL"))][:5]
    if len(out) <= 2 * n:
        return out
    return "\n".join(key) + "\n" + out[:n] + "\n[...]\n" + out[-n:]


def save_replay(prop, driver, trace_module, script_ops, inv, event):
    os.makedirs(os.path.join(VERIF, "replays"), exist_ok=True)
    event = dict(event) if event else event
    recorded = event.pop("_recorded", None) if event else None
    body = {"property": prop, "driver": driver, "trace_module": trace_module, "invariant": inv,
            "event": event, "ops": script_ops}
    h = hashlib.sha1(json.dumps(body, sort_keys=True).encode()).hexdigest()[:12]
    body["recorded_trace"] = recorded
    path = os.path.join(VERIF, "replays", f"{prop}-{h}.json")
    with open(path, "w") as f:
        json.dump(body, f, separators=(",", ":"))
    return path


def write_evidence(prop, tier, seed, coverage, wall, violations, assumptions, level="model_checking"):
    os.makedirs(os.path.join(VERIF, "evidence"), exist_ok=True)
    ev = {"property_id": prop, "tier": tier, "seed": seed, "level": level, "coverage": coverage,
          "assumptions": assumptions, "wall_s": round(wall, 2), "violations": violations}
    with open(os.path.join(VERIF, "evidence", f"{prop}.json"), "w") as f:
        json.dump(ev, f, indent=1)


def read_lines(path):
    with open(path) as f:
        return f.read().splitlines()


def belongs(inv, prefixes):
    """An invariant name starts with the ids of the properties it belongs to (C06_C02_AbortOpen);
    a prefix entry may be a property id ("C06"), a name prefix ("C11_") or "" (everything)."""
    toks = []
    for tok in inv.split("_"):
        if len(tok) == 3 and tok[0] == "C" and tok[1:].isdigit():
            toks.append(tok)
        else:
            break
    for p in prefixes:
        if p == "" or p in toks or (p.endswith("_") and inv.startswith(p)):
            return True
    return False


class Family:
    """One batch of scripts for one driver, validated by one trace specification."""

    def __init__(self, name, driver, trace_module, scripts, gen_stats=None, env=None, race=False, post=None):
        self.name, self.driver, self.trace_module = name, driver, trace_module
        # post(fam, dir) -> dict: an additional, non-judging pass over the logs of the family (kept in `dir`)
        self.post = post
        self.scripts = scripts
        self.gen_stats = gen_stats or {}
        self.env = env
        self.race = race


def run_family(fam, scratch, prefixes, allow_incomplete=False):
    """Execute + validate, in parallel chunks (one harness process and one TLC process per chunk).
    Returns dict with the violating traces whose first violated invariant belongs to one of
    `prefixes`: [(script_id, line, inv, event, ops)], the others, plus counters."""
    from concurrent.futures import ThreadPoolExecutor
    n = len(fam.scripts)
    # a TLC process costs ~3 s to start; only large logs are worth splitting
    nops = sum(len(sc) for sc in fam.scripts)
    nchunks = max(1, min(6, n, nops // 40000))
    sub = os.path.join(scratch, fam.name)
    os.makedirs(sub, exist_ok=True)
    chunks = []
    for c in range(nchunks):
        ids = list(range(c, n, nchunks))
        spath = os.path.join(sub, f"scripts{c}.ndjson")
        with open(spath, "w") as f:
            for i in ids:
                f.write(json.dumps({"id": i + 1, "ops": fam.scripts[i]}, separators=(",", ":")) + "\n")
        chunks.append((c, spath, len(ids)))
    t0 = time.time()

    def work(ch):
        c, spath, cnt = ch
        trace, bounds, nt, nev = run_harness(fam.driver, spath, sub, race=fam.race, extra_env=fam.env, tag=str(c))
        if nt != cnt:
            raise MachineryError(f"harness produced {nt} traces for {cnt} scripts")
        r = _validate_one(fam.trace_module, trace, bounds, "3g", 1800, None)
        return trace, bounds, nt, nev, r

    with ThreadPoolExecutor(max_workers=nchunks) as ex:
        results = list(ex.map(work, chunks))
    bad, other = [], []
    traces = events = states = trans = 0
    for trace, bounds, nt, nev, r in results:
        traces += nt
        events += nev
        states += r["distinct"]
        trans += r["generated"]
        if not r["ok"]:
            raise MachineryError(f"trace validation ({fam.trace_module}) did not complete:\n" + r["stdout"][-3000:])
        verdicts = {}
        for m in VERDICT_RE.finditer(r["stdout"]):
            verdicts[int(m.group(1))] = (int(m.group(2)), m.group(3), m.group(4)[:2000])
        if len(verdicts) != nt and not allow_incomplete:
            # a trace that the specification could not consume completely (an action guard refused an
            # event) produces no verdict: that is a defect of the generator/harness, never a violation
            raise MachineryError(f"trace validation ({fam.trace_module}): {len(verdicts)} verdicts for {nt} traces "
                                 "(some trace was not consumed completely)\n" + r["stdout"][-1500:])
        # a second judgement of the same log that belongs to the property of this check while the first violation
        # belongs to another one (printed by the trace specification as << "ALSO", id, line, invariant >>)
        for m in ALSO_RE.finditer(r["stdout"]):
            sid, ln, inv = int(m.group(1)), int(m.group(2)), m.group(3)
            if sid in verdicts and not belongs(verdicts[sid][1], prefixes) and belongs(inv, prefixes):
                verdicts[sid] = (ln, inv, "")
        lines = None
        for sid, (ln, inv, exp) in sorted(verdicts.items()):
            if inv == "ok":
                continue
            if lines is None:
                lines = read_lines(trace)
            ev = json.loads(lines[ln - 1]) if 0 < ln <= len(lines) else None
            if ev is not None:
                ev["_expected"] = exp
                # the events the implementation produced for this script, up to the offending one: a replay that
                # takes another schedule can then still be compared with what was judged
                try:
                    bl = [json.loads(x) for x in read_lines(bounds)]
                    start = [b_["s"] for b_ in bl if b_["id"] == sid][0]
                    ev["_recorded"] = [json.loads(x) for x in lines[start - 1:ln]][-400:]
                except (OSError, ValueError, KeyError, IndexError):
                    pass
            rec = (sid, ln, inv, ev, fam.scripts[sid - 1])
            if inv.startswith("MACHINERY") and allow_incomplete:
                continue
            if inv.startswith("MACHINERY"):
                raise MachineryError(f"trace validation reports {inv} for script {sid}: {json.dumps(ev)[:300]}")
            if belongs(inv, prefixes):
                bad.append(rec)
            else:
                other.append(rec)
    log(f"[exec+validate] family={fam.name} driver={fam.driver} spec={fam.trace_module} traces={traces} "
        f"events={events} states={states} chunks={nchunks} {time.time()-t0:.1f}s")
    return dict(bad=bad, other=other, traces=traces, events=events, states=states, transitions=trans,
                wall=time.time() - t0)

def shrink(driver, trace_module, ops, inv, env=None, rounds=60):
    """Block-removal minimisation of a failing script (all candidates of a round are executed and
    validated in one batch; candidates the specification cannot consume are skipped)."""
    def without(ops, lo, hi):
        out = []
        k = hi - lo
        for j, o in enumerate(ops):
            if lo <= j < hi:
                continue
            f = o.get("first", 0) if isinstance(o, dict) else 0
            if f:
                o = dict(o)
                if lo <= f - 1 < hi:
                    o["first"] = 0
                elif f - 1 >= hi:
                    o["first"] = f - k
            out.append(o)
        return out

    cur = list(ops)
    for _ in range(rounds):
        n = len(cur)
        cands = []
        size = max(1, n // 2)
        seen = set()
        while True:
            for lo in range(0, n, size):
                key = (lo, min(n, lo + size))
                if key not in seen and key != (0, n):
                    seen.add(key)
                    cands.append(without(cur, *key))
            if size == 1:
                break
            size = max(1, size // 2)
        if not cands:
            break
        scratch = tempfile.mkdtemp(prefix="vshrink-")
        try:
            fam = Family("shrink", driver, trace_module, cands, env=env)
            res = run_family(fam, scratch, [""], allow_incomplete=True)
        finally:
            shutil.rmtree(scratch, ignore_errors=True)
        good = [c for (sid, ln, i2, ev, c) in res["bad"] if i2 == inv]
        if not good:
            break
        cur = min(good, key=len)
    return cur
