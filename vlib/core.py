"""Infrastructure shared by all checks: Go build, TLC runs, script/trace plumbing,
evidence, known findings, replay files."""
import hashlib
import json
import os
import random
import re
import shutil
import subprocess
import sys
import tempfile
import time

VERIF = os.path.dirname(os.path.dirname(os.path.abspath(__file__)))
REPO = os.environ.get("VERIF_REPO", "/repo")
SPEC = os.path.join(VERIF, "spec")
BUILD = os.path.join(VERIF, ".build")
TLA_CP = "/opt/veriftools/tla/tla2tools.jar:/opt/veriftools/tla/CommunityModules-deps.jar"


class MachineryError(Exception):
    pass


def log(*a):
    print(*a, file=sys.stderr, flush=True)


# --------------------------------------------------------------------------- Go

def find_go():
    cands = [
        "/root/go/pkg/mod/golang.org/toolchain@v0.0.1-go1.25.0.linux-amd64/bin/go",
        shutil.which("go1.26") or "",
        shutil.which("go1.26.8") or "",
        "/opt/veriftools/go1.26.8/bin/go",
        shutil.which("go") or "",
    ]
    for c in cands:
        if c and os.path.exists(c):
            return c
    raise MachineryError("no Go toolchain found")


def go_env():
    env = dict(os.environ)
    env.update(GOFLAGS="-mod=mod", GOPROXY="off", GOSUMDB="off", GOTOOLCHAIN="local",
               CGO_ENABLED=env.get("CGO_ENABLED", "0"))
    return env


_built = {}


def build_harness(race=False):
    """(Re)build the harness test binary against the current working tree of /repo."""
    key = "race" if race else "norace"
    if key in _built:
        return _built[key]
    os.makedirs(BUILD, exist_ok=True)
    out = os.path.join(BUILD, "harness-race.test" if race else "harness.test")
    hdir = os.path.join(VERIF, "harness")
    # the harness module needs the repository's go.sum
    shutil.copyfile(os.path.join(REPO, "go.sum"), os.path.join(hdir, "go.sum"))
    env = go_env()
    cmd = [find_go(), "test", "-c", "-tags", "verif", "-o", out]
    if race:
        env["CGO_ENABLED"] = "1"
        cmd.append("-race")
    cmd.append(".")
    t0 = time.time()
    p = subprocess.run(cmd, cwd=hdir, env=env, capture_output=True, text=True)
    if p.returncode != 0:
        raise MachineryError("harness build failed:\n" + p.stdout + p.stderr)
    log(f"[build] harness ({key}) {time.time()-t0:.1f}s")
    _built[key] = out
    return out


def run_harness(driver, scripts_path, outdir, race=False, timeout=1800, extra_env=None):
    """Execute scripts on the real code. Returns (trace_path, bounds_path, ntraces)."""
    binp = build_harness(race)
    trace = os.path.join(outdir, f"{driver}.trace.ndjson")
    bounds = os.path.join(outdir, f"{driver}.bounds.ndjson")
    env = go_env()
    env.update(VERIF_DRIVER=driver, VERIF_SCRIPTS=scripts_path, VERIF_TRACE=trace, VERIF_BOUNDS=bounds)
    if extra_env:
        env.update(extra_env)
    t0 = time.time()
    p = subprocess.run([binp, "-test.run", "^TestDriver$", "-test.timeout", "0", "-test.count", "1"],
                       cwd=outdir, env=env, capture_output=True, text=True, timeout=timeout)
    if p.returncode != 0:
        raise MachineryError(f"harness driver {driver} failed (exit {p.returncode}):\n" + (p.stdout + p.stderr)[-4000:])
    n = sum(1 for _ in open(bounds))
    nev = sum(1 for _ in open(trace))
    log(f"[exec] driver={driver} traces={n} events={nev} {time.time()-t0:.1f}s")
    return trace, bounds, n, nev


# -------------------------------------------------------------------------- TLC

def _stage(dirs, scratch):
    for d in dirs:
        for f in os.listdir(d):
            if f.endswith(".tla") or f.endswith(".cfg"):
                shutil.copyfile(os.path.join(d, f), os.path.join(scratch, f))


STATS_RE = re.compile(r"(\d+) states generated, (\d+) distinct states found, (\d+) states left on queue")


def tlc(module, cfg=None, subdir=None, workers=1, heap="4g", timeout=900, env=None, simulate=None,
        seed=None, depth=None, scratch_root=None, want_stdout=True, extra=None):
    """Run TLC on spec/<subdir>/<module>.tla in a scratch copy. Returns dict(stdout, generated,
    distinct, ok, violated)."""
    scratch = tempfile.mkdtemp(prefix="tlc-", dir=scratch_root)
    try:
        dirs = [SPEC]
        if subdir:
            dirs.append(os.path.join(SPEC, subdir))
        _stage(dirs, scratch)
        cmd = ["java", "-XX:+UseParallelGC", f"-Xmx{heap}", "-Xss64m", "-cp", TLA_CP, "tlc2.TLC",
               "-workers", str(workers), "-metadir", os.path.join(scratch, "meta"),
               "-noGenerateSpecTE"]
        if cfg:
            cmd += ["-config", cfg]
        if simulate:
            cmd += ["-simulate", simulate]
        if depth:
            cmd += ["-depth", str(depth)]
        if seed is not None:
            cmd += ["-seed", str(seed)]
        if extra:
            cmd += extra
        cmd.append(module + ".tla")
        e = dict(os.environ)
        if env:
            e.update(env)
        t0 = time.time()
        try:
            p = subprocess.run(cmd, cwd=scratch, env=e, capture_output=True, text=True, timeout=timeout)
        except subprocess.TimeoutExpired:
            raise MachineryError(f"TLC timeout after {timeout}s on {module}")
        out = p.stdout
        m = None
        for m in STATS_RE.finditer(out):
            pass
        res = dict(stdout=out if want_stdout else "", rc=p.returncode, wall=time.time() - t0,
                   generated=int(m.group(1)) if m else 0, distinct=int(m.group(2)) if m else 0,
                   left=int(m.group(3)) if m else -1)
        res["violated"] = ("Error: Invariant" in out) or ("is violated" in out) or ("Error: Deadlock" in out) \
            or ("Temporal properties were violated" in out) or ("Error: Action property" in out)
        res["ok"] = ("Model checking completed. No error has been found." in out) or \
                    (simulate is not None and p.returncode == 0 and not res["violated"])
        if not res["ok"] and not res["violated"]:
            res["error"] = out[-3000:] + p.stderr[-1000:]
        return res
    finally:
        shutil.rmtree(scratch, ignore_errors=True)


def tla_unquote(s):
    return json.loads('"' + s + '"')


SCRIPT_RE = re.compile(r'^<<"SCRIPT", "(.*)">>$')
VERDICT_RE = re.compile(r'^<<"VERDICT", (-?\d+), (\d+), "([^"]*)">>$')


def scripts_from_tlc(stdout):
    """Extract the printed scripts (lists of op dicts)."""
    out = []
    for line in stdout.splitlines():
        m = SCRIPT_RE.match(line)
        if m:
            out.append(json.loads(tla_unquote(m.group(1))))
    return out


def drop_prefixes(scripts):
    """Remove scripts that are proper prefixes of another script (BFS prints every path)."""
    keyed = sorted(([json.dumps(op, sort_keys=True) for op in s] for s in scripts))
    keep = []
    for i, k in enumerate(keyed):
        if i + 1 < len(keyed):
            nxt = keyed[i + 1]
            if len(nxt) >= len(k) and nxt[:len(k)] == k:
                continue
        keep.append([json.loads(x) for x in k])
    return keep


def write_scripts(scripts, path, start_id=1):
    with open(path, "w") as f:
        for i, ops in enumerate(scripts):
            f.write(json.dumps({"id": start_id + i, "ops": ops}, separators=(",", ":")) + "\n")
    return len(scripts)


def _validate_one(trace_module, trace, bounds, heap, timeout, cfg):
    return tlc(trace_module, cfg=cfg or (trace_module + ".cfg"), subdir="trace", workers=1, heap=heap,
               timeout=timeout, env={"VERIF_TRACE": trace, "VERIF_BOUNDS": bounds})


def validate(trace_module, trace, bounds, ntraces, heap="4g", timeout=1800, cfg=None, nevents=0,
             allow_incomplete=False):
    """Run the trace specification over a log (sharded over parallel TLC processes when the log is
    large; each shard gets its own bounds file). Returns (verdicts: {id: (line, inv)}, stats)."""
    from concurrent.futures import ThreadPoolExecutor
    shards = 1
    if nevents > 15000:
        shards = min(8, max(2, nevents // 15000), ntraces)
    bfiles = [bounds]
    if shards > 1:
        lines = read_lines(bounds)
        # longest traces first, round robin, to balance the shards
        lines.sort(key=lambda ln: -(json.loads(ln)["e"] - json.loads(ln)["s"]))
        bfiles = []
        for i in range(shards):
            bf = f"{bounds}.{i}"
            with open(bf, "w") as f:
                f.write("\n".join(lines[i::shards]) + "\n")
            bfiles.append(bf)
    with ThreadPoolExecutor(max_workers=shards) as ex:
        rs = list(ex.map(lambda bf: _validate_one(trace_module, trace, bf, heap, timeout, cfg), bfiles))
    verdicts = {}
    agg = dict(distinct=0, generated=0, wall=0.0)
    for r in rs:
        for line in r["stdout"].splitlines():
            m = VERDICT_RE.match(line)
            if m:
                verdicts[int(m.group(1))] = (int(m.group(2)), m.group(3))
        if not r["ok"]:
            raise MachineryError(f"trace validation ({trace_module}) did not complete:\n" + r["stdout"][-3000:])
        agg["distinct"] += r["distinct"]
        agg["generated"] += r["generated"]
        agg["wall"] = max(agg["wall"], r["wall"])
    if len(verdicts) != ntraces and not allow_incomplete:
        # a trace that the specification could not consume completely (an action guard refused an
        # event) produces no verdict: that is a defect of the generator/harness, never a violation
        raise MachineryError(f"trace validation ({trace_module}): {len(verdicts)} verdicts for {ntraces} traces "
                             "(some trace was not consumed completely)\n" + rs[0]["stdout"][-1500:])
    log(f"[validate] {trace_module}: traces={ntraces} states={agg['distinct']} shards={shards} {agg['wall']:.1f}s")
    return verdicts, agg


# ------------------------------------------------------------ known findings etc.

def load_known():
    p = os.path.join(VERIF, "known_findings.json")
    if not os.path.exists(p):
        return []
    return json.load(open(p)).get("findings", [])


def match_known(prop, inv, ev, known):
    """A known finding matches on property, invariant name and the listed event fields."""
    for k in known:
        if k.get("status") != "known" or k.get("property") != prop:
            continue
        sig = k.get("signature", {})
        if sig.get("invariant") and sig["invariant"] != inv:
            continue
        ok = True
        for fk, fv in sig.get("event", {}).items():
            if ev is None or ev.get(fk) != fv:
                ok = False
                break
        if ok:
            return k
    return None


def save_replay(prop, driver, trace_module, script_ops, inv, event):
    os.makedirs(os.path.join(VERIF, "replays"), exist_ok=True)
    body = {"property": prop, "driver": driver, "trace_module": trace_module, "invariant": inv,
            "event": event, "ops": script_ops}
    h = hashlib.sha1(json.dumps(body, sort_keys=True).encode()).hexdigest()[:12]
    path = os.path.join(VERIF, "replays", f"{prop}-{h}.json")
    with open(path, "w") as f:
        json.dump(body, f, separators=(",", ":"))
    return path


def write_evidence(prop, tier, seed, coverage, wall, violations, assumptions, level="model_checking"):
    os.makedirs(os.path.join(VERIF, "evidence"), exist_ok=True)
    ev = {"property_id": prop, "tier": tier, "seed": seed, "level": level, "coverage": coverage,
          "assumptions": assumptions, "wall_s": round(wall, 2), "violations": violations}
    with open(os.path.join(VERIF, "evidence", f"{prop}.json"), "w") as f:
        json.dump(ev, f, indent=1)


def read_lines(path):
    with open(path) as f:
        return f.read().splitlines()


class Family:
    """One batch of scripts for one driver, validated by one trace specification."""

    def __init__(self, name, driver, trace_module, scripts, gen_stats=None, env=None, race=False):
        self.name, self.driver, self.trace_module = name, driver, trace_module
        self.scripts = scripts
        self.gen_stats = gen_stats or {}
        self.env = env
        self.race = race


def run_family(fam, scratch, prefixes, allow_incomplete=False):
    """Execute + validate. Returns dict with verdict list limited to invariants whose name starts with
    one of prefixes: [(script_id, line, inv, event, ops)], plus counters."""
    spath = os.path.join(scratch, f"{fam.name}.scripts.ndjson")
    write_scripts(fam.scripts, spath)
    sub = os.path.join(scratch, fam.name)
    os.makedirs(sub, exist_ok=True)
    trace, bounds, n, nev = run_harness(fam.driver, spath, sub, race=fam.race, extra_env=fam.env)
    verdicts, r = validate(fam.trace_module, trace, bounds, n, nevents=nev, allow_incomplete=allow_incomplete)
    lines = None
    bad, other = [], []
    for sid, (ln, inv) in sorted(verdicts.items()):
        if inv == "ok":
            continue
        if lines is None:
            lines = read_lines(trace)
        ev = json.loads(lines[ln - 1]) if 0 < ln <= len(lines) else None
        rec = (sid, ln, inv, ev, fam.scripts[sid - 1])
        if any(inv.startswith(p) for p in prefixes):
            bad.append(rec)
        else:
            other.append(rec)
    return dict(bad=bad, other=other, traces=n, events=nev, states=r["distinct"], transitions=r["generated"],
                wall=r["wall"])


def shrink(driver, trace_module, ops, inv, env=None, rounds=30):
    """Greedy one-op-removal minimisation of a failing script (all candidates of a round are
    executed and validated in one batch; candidates the specification cannot consume are skipped)."""
    cur = list(ops)
    for _ in range(rounds):
        cands = [cur[:i] + cur[i + 1:] for i in range(len(cur))]
        # also try truncations
        cands += [cur[:i] for i in range(1, len(cur))]
        scratch = tempfile.mkdtemp(prefix="vshrink-")
        try:
            fam = Family("shrink", driver, trace_module, cands, env=env)
            res = run_family(fam, scratch, [""], allow_incomplete=True)
        finally:
            shutil.rmtree(scratch, ignore_errors=True)
        good = [c for (sid, ln, i2, ev, c) in res["bad"] if i2 == inv]
        if not good:
            break
        cur = min(good, key=len)
    return cur
