"""Property registry and the generic check procedure."""
import importlib
import json
import os
import random
import re
import shutil
import sys
import tempfile
import time

import core
from core import MachineryError, Family, log, VERIF

sys.path.insert(0, os.path.join(VERIF, "gen"))


def seed_of():
    try:
        return int(os.environ.get("VERIF_SEED", "1"))
    except ValueError:
        return 1


def sample(lst, n, rng):
    if len(lst) <= n:
        return list(lst)
    return rng.sample(lst, n)


def tlc_scripts(module, cfg, rng, limit, heap="4g", timeout=900):
    """Scripts printed by a generation spec (BFS + VIEW: one per transition)."""
    r = core.tlc(module, cfg=cfg, subdir="gen", workers=1, heap=heap, timeout=timeout)
    if not r["ok"]:
        raise MachineryError(f"script generation {module}/{cfg} failed:\n" + r.get("error", r["stdout"][-2000:]))
    scripts = core.drop_prefixes(core.scripts_from_tlc(r["stdout"]))
    total = len(scripts)
    scripts = sample(scripts, limit, rng)
    log(f"[gen] {module}/{cfg}: transitions={r['generated']} states={r['distinct']} maximal scripts={total} used={len(scripts)}")
    return scripts, dict(states=r["distinct"], transitions=r["generated"], scripts_total=total)


def design_check(module, cfg, workers=8, heap="8g", timeout=1500):
    r = core.tlc(module, cfg=cfg, subdir="mc", workers=workers, heap=heap, timeout=timeout, want_stdout=True)
    if r["violated"]:
        raise MachineryError(f"design check {module}/{cfg}: TLC reports a violation on the SPECIFICATION "
                             "(a defect of the model, not of the code):\n" + r["stdout"][-3000:])
    if not r["ok"]:
        raise MachineryError(f"design check {module}/{cfg} did not complete:\n" + r.get("error", r["stdout"][-2000:]))
    log(f"[design] {module}/{cfg}: states={r['distinct']} transitions={r['generated']} {r['wall']:.1f}s")
    return dict(module=module, cfg=cfg, states=r["distinct"], transitions=r["generated"], wall=round(r["wall"], 1))


def mutant_check(module, cfg, expect):
    """Non-vacuity self-test: a mutant specification must violate the expected invariant."""
    r = core.tlc(module, cfg=cfg, subdir="mc", workers=8, heap="8g", timeout=900)
    if not r["violated"] or expect not in r["stdout"]:
        raise MachineryError(f"mutant {module}/{cfg} was expected to violate {expect} but did not:\n" + r["stdout"][-2000:])
    log(f"[mutant] {module}/{cfg}: violates {expect} as expected")
    return dict(module=module, cfg=cfg, violates=expect)


# ----------------------------------------------------------------------------------------------
# Property definitions.  Each returns (design results, [Family], prefixes, meta)

def prop_C11(tier, seed, rng):
    import part_gen
    quick = tier == "quick"
    design = [design_check("MCPartTree", "MCPartTree.cfg" if not quick else "MCPartTreeQuick.cfg")]
    s1, g1 = tlc_scripts("GenPartTree", "GenPartTree.cfg" if quick else "GenPartTreeDeep.cfg", rng,
                         4000 if quick else 60000)
    s2 = part_gen.generate("c11", 600 if quick else 12000, seed)
    s3 = part_gen.generate("c12dense", 300 if quick else 6000, seed + 14)
    s4 = part_gen.generate("boundary", 72 if quick else 100000, seed + 16)
    s5 = part_gen.generate("c11pairs", 1500 if quick else 100000, seed + 18)
    fams = [Family("tlc", "part", "PartTrace", s1, g1), Family("shaped", "part", "PartTrace", s2),
            Family("dense", "part", "PartTrace", s3), Family("boundary", "part", "PartTrace", s4),
            Family("pairs", "part", "PartTrace", s5),
            # trees 30-64 levels deep branching at every level: iterators with more than 32 pending sibling sets
            Family("deep", "part", "PartTrace", part_gen.generate("c11deep", 40 if quick else 800, seed + 21))]
    return design, fams, ["C11_"], dict(
        rule="scripts = (a) one per transition of the bounded PartTree.tla state graph (TLC BFS+VIEW), "
             "(b) shaped random histories (fan-outs across 4/16/48/256, chains, binary keys, branching, clones, "
             "iterators inside transactions, abandoned transactions), (c) enumerated node-boundary scripts: a node "
             "with 2..50 children (around the 4/16/48 thresholds, branch bytes 0x00/0xff included), with or "
             "without its own value, loses its first/middle/last child and gets it back, every key read from the "
             "transaction, the new and the old tree, (d) pairs: every initial subset of a 6-key universe with a "
             "fork below a valued inner node x every ordered pair of writes (insert/delete/modify) in one transaction "
             "without a query in between x {commit, abandon, clone after the first write and continue in a "
             "transaction of the clone}, the older trees re-read afterwards (sampled in the quick tier); "
             "non-trivial = script re-reads a retained "
             "tree/clone/iterator after a later write of a transaction derived from it",
        nontrivial=lambda ops: _c11_nontrivial(ops),
        assumptions=["Notify is issued only along a linear history (DESIGN 9); C11 scripts branch with Commit only",
                     "values are ints; the merge function of Modify is fixed (o*3+n)%11"])


def _c11_nontrivial(ops):
    wrote = False
    made = False
    for op in ops:
        o = op["op"]
        if o in ("commit", "clone", "commitnotify", "prefix", "lowerbound", "iterator"):
            made = True
        elif o in ("insert", "modify", "delete") and made:
            wrote = True
        elif wrote and o in ("get", "all", "len", "iterall", "next", "prefix", "lowerbound"):
            return True
    return False


def prop_C12(tier, seed, rng):
    import part_gen
    quick = tier == "quick"
    design = [design_check("MCPartTree", "MCPartTree.cfg" if not quick else "MCPartTreeQuick.cfg")]
    s1, g1 = tlc_scripts("GenPartTree", "GenPartTree.cfg" if quick else "GenPartTreeDeep.cfg", rng,
                         4000 if quick else 60000)
    s2 = part_gen.generate("c12", 800 if quick else 15000, seed + 1)
    s3 = part_gen.generate("c12inner", 300 if quick else 6000, seed + 12)
    s4 = part_gen.generate("c12dense", 600 if quick else 12000, seed + 13)
    s5 = part_gen.generate("c12pairs", 1500 if quick else 100000, seed + 15)
    s6 = part_gen.generate("boundaryw", 72 if quick else 100000, seed + 17)
    fams = [Family("tlc", "part", "PartTrace", s1, g1), Family("shaped", "part", "PartTrace", s2),
            Family("innernodes", "part", "PartTrace", s3), Family("dense", "part", "PartTrace", s4),
            Family("pairs", "part", "PartTrace", s5), Family("boundary", "part", "PartTrace", s6),
            # transactions that mark more than 64 channels (the set is then not reused), Commit before Notify
            Family("bigtxn", "part", "PartTrace", part_gen.generate("c12bigtxn", 60 if quick else 1200, seed + 19))]
    return design, fams, ["C12_"], dict(
        rule="scripts = (a) one per transition of the bounded PartTree.tla state graph, (b) shaped linear histories "
             "with >=1 watch per transaction (Get on present/absent keys, Prefix incl. inside compressed paths, "
             "RootWatch, InsertWatch/ModifyWatch) in per-node and root-only mode, (c) enumerated node-boundary scripts "
             "(see C11) with Get/Prefix watches on the removed child, its neighbour and the node; non-trivial = a tracked channel "
             "exists when a transaction is notified or abandoned",
        nontrivial=lambda ops: _c12_nontrivial(ops),
        assumptions=["watch contract checked along a linear history only (DESIGN 9)",
                     "channels handed out by a transaction carry no must-close obligation for later changes in the "
                     "same transaction"])


def _c12_nontrivial(ops):
    have = False
    for op in ops:
        if op.get("w"):
            have = True
        if have and op["op"] in ("notify", "commitnotify", "abandon", "tinsert", "tmodify", "tdelete"):
            return True
    return False


def prop_C13(tier, seed, rng):
    import lpm_gen
    quick = tier == "quick"
    design = [design_check("MCLPM", "MCLPMQuick.cfg" if quick else "MCLPM.cfg")]
    s1, g1 = tlc_scripts("GenLPM", "GenLPM.cfg" if quick else "GenLPMDeep.cfg", rng, 4000 if quick else 80000)
    s2 = lpm_gen.generate(1500 if quick else 30000, seed + 2)
    s3 = lpm_gen.generate(60 if quick else 1500, seed + 3, "deep")
    fams = [Family("tlc", "lpm", "LPMTrace", s1, g1), Family("shaped", "lpm", "LPMTrace", s2),
            Family("deep", "lpm", "LPMTrace", s3)]
    return design, fams, ["C13_"], dict(
        rule="scripts = (a) one per transition of the bounded LPM.tla state graph, (b) shaped histories over clustered "
             "prefixes of lengths {0,1,2,7,8,9,W-1,W} (W in 8..24) with query prefixes that are stored, ancestors, "
             "descendants or diverge at any bit, full-length lookup keys, transactions reused after commit, branching "
             "and abandoned transactions, (c) deep tries: combs of 30..64 nested prefixes b^i(1-b) in 40..64-bit keys "
             "with range queries from every depth, consumed at once and element by element, before and after "
             "deletions; non-trivial = a query on a trie holding >= 2 prefixes",
        nontrivial=_c13_nontrivial,
        assumptions=["Lookup is judged only for full-length keys and stored prefixes (the property's domain)",
                     "values are ints"])


def _c13_nontrivial(ops):
    ins = 0
    for op in ops:
        if op["op"] == "insert":
            ins += 1
        if ins >= 2 and op["op"] in ("lookup", "prefix", "lowerbound", "all", "exact"):
            return True
    return False


DB_ASSUME = ["sequential driver: one goroutine issues all calls (interleavings are the subject of drv_sched)",
             "two live objects never share a unique secondary key (user error outside the properties)",
             "the old object's revision is not returned by the write API and is not compared",
             "LPM Get/List are judged for full-length keys and stored prefixes"]


def stress_family(tier, seed, prop):
    """Free-running goroutines under the race detector; the oracle is carried in the data (StressTrace.tla)."""
    quick = tier == "quick"
    rng = random.Random(seed * 67 + int(prop[1:]))
    runs = []
    for i in range(4 if quick else 60):
        runs.append([dict(op="stress", tables=rng.choice([2, 3, 4]), writers=rng.choice([2, 4, 6]), txns=rng.choice([20, 40]),
                          readers=rng.choice([2, 4]), reads=rng.choice([30, 60]), seed=rng.randrange(10**6))])
    return Family("stress", "stress", "StressTrace", runs, race=True)


GRAVEYARD_MUTANTS = [("MCGraveyard_ignoreZero.cfg", "Inv_C08_Retain"), ("MCGraveyard_keepOnReinsert.cfg", "Inv_C08_NoTombstoneOfLive"),
                     ("MCGraveyard_markSnapshot.cfg", "Inv_C08_Retain"), ("MCGraveyard_reuseRevision.cfg", "Inv_C07_Converge"),
                     ("MCGraveyard_closeNoTrigger.cfg", "Live_C08_Drain"), ("MCGraveyard_dropTriggerAfterPass.cfg", "Live_C08_Drain")]


def graveyard_design(tier):
    """Graveyard.tla: the marking/collection algorithm provides what DB.tla demands of an iterator."""
    quick = tier == "quick"
    d = [design_check("Graveyard", "MCGraveyardQuick.cfg")]
    if not quick:
        d.append(design_check("Graveyard", "MCGraveyardLive.cfg", timeout=3000))
        d += [dict(mutant_check("Graveyard", c, e), states=0, transitions=0) for c, e in GRAVEYARD_MUTANTS]
    return d


def graveyard_family(tier, rng):
    """drv_db scripts, one per transition of the graph of whole API calls of Graveyard.tla (GenGraveyard.tla)."""
    import db_gen
    quick = tier == "quick"
    hists, g = tlc_scripts("GenGraveyard", "GenGraveyard.cfg" if quick else "GenGraveyardDeep.cfg", rng,
                           600 if quick else 20000, heap="6g", timeout=3000)
    return Family("tlc-graveyard", "db", "DBTrace", [db_gen.from_graveyard(rng, h) for h in hists], g)


def _db_prop(prop, mode, nq, nt, rule, nontrivial, extra_modes=(), tlc_gen=False):
    def fn(tier, seed, rng):
        import db_gen
        quick = tier == "quick"
        design = [design_check("MCDB", "MCDBQuick.cfg" if quick else "MCDB.cfg")]
        fams = [Family(mode, "db", "DBTrace", db_gen.generate(mode, nq if quick else nt, seed * 31 + int(prop[1:])))]
        if tlc_gen:
            s1, g1 = tlc_scripts("GenDB", "GenDB.cfg" if quick else "GenDBDeep.cfg", rng, 3000 if quick else 60000)
            fams.append(Family("tlc", "db", "DBTrace", s1, g1))
        for (m2, q2, t2) in extra_modes:
            if m2 == "graveyard":
                design += graveyard_design(tier)
                fams.append(graveyard_family(tier, rng))
                continue
            if m2 == "sched":
                fams += sched_families(tier, seed, rng, prop, q2, t2, q2, t2)
                design += impl_design(tier)
                continue
            if m2 == "stress":
                fams.append(stress_family(tier, seed, prop))
                continue
            fams.append(Family(m2, "db", "DBTrace", db_gen.generate(m2, q2 if quick else t2, seed * 37 + int(prop[1:]))))
        return design, fams, [prop], dict(rule=rule, nontrivial=nontrivial, assumptions=DB_ASSUME)
    return fn


def _has(ops, pred):
    return any(pred(o) for o in ops)


def _nt_requery(ops):
    return _has(ops, lambda o: o.get("first", 0) > 0)


def _nt_abort(ops):
    return _has(ops, lambda o: o["op"] == "abort") and _has(ops, lambda o: o.get("ctx") == "postabort")


def _nt_write(ops):
    return sum(1 for o in ops if o["op"] in ("insert", "modify", "cas", "cad", "delete", "deleteall")) >= 2


def _nt_watch(ops):
    return _has(ops, lambda o: o.get("w", 0) > 0) and _has(ops, lambda o: o["op"] in ("commit", "abort"))


def _nt_iter(ops):
    return _has(ops, lambda o: o["op"] == "next") and _has(ops, lambda o: o["op"] in ("delete", "deleteall"))


def _nt_init(ops):
    return _has(ops, lambda o: o["op"] == "reginit") and _has(ops, lambda o: o["op"] == "markdone")


def prop_C17(tier, seed, rng):
    import map_gen
    quick = tier == "quick"
    design = [design_check("MCPartMap", "MCPartMapQuick.cfg" if quick else "MCPartMap.cfg")]
    s1, g1 = tlc_scripts("GenPartMap", "GenPartMap.cfg" if quick else "GenPartMapDeep.cfg", rng, 4000 if quick else 60000)
    s2 = map_gen.generate(1500 if quick else 30000, seed + 4)
    fams = [Family("tlc", "map", "MapTrace", s1, g1), Family("shaped", "map", "MapTrace", s2),
            # trees crossing the 4/16/48 thresholds below a key that is itself in the collection
            Family("fanout", "map", "MapTrace", map_gen.generate_fanout(150 if quick else 3000, seed + 40))]
    return design, fams, ["C17_"], dict(
        rule="scripts = (a) one per transition of the bounded PartMap.tla state graph, (b) shaped branching histories "
             "over Map.Set/Delete/FromMap/Txn (MapTxn reused after Commit)/JSON/YAML and Set.Set/Delete/Union/"
             "Difference with keys incl. the empty key and prefixes of one another, every value re-read at the end; (c) family fanout: "
             "4-50 keys P+b below a key P that is itself in the collection, deletions/re-insertions across the node-size thresholds; "
             "non-trivial = >= 3 derived values", nontrivial=lambda ops: sum(1 for o in ops if "j" in o) >= 3,
        assumptions=["keys are valid UTF-8 strings (JSON/YAML round trips)", "values are ints"])


def prop_C18(tier, seed, rng):
    import enc_gen, db_gen
    quick = tier == "quick"
    design = [design_check("MCKeyEnc", "MCKeyEnc.cfg", workers=1)]
    if not quick:
        design.append(design_check("MCKeyEnc", "MCKeyEncDeep.cfg", workers=1))
    tables = enc_gen.generate(tier, seed)
    fams = [Family("encoders", "enc", "EncTrace", [ops for (_, ops) in tables]),
            Family("index-order", "db", "DBTrace", db_gen.generate("c18", 60 if quick else 1000, seed + 18))]
    return design, fams, ["C18"], dict(
        rule="(a) TLC evaluates injectivity, order embedding and separability on the LOGGED composite keys of all "
             "(secondary, primary) pairs over {00,01,02,ff} up to length 2 (thorough: also {00,01,02} up to 3) and of "
             "random pair tables over all byte values; unsigned/signed/bool/string encoders and the LPM codec on boundary "
             "and random values; (b) black box: non-unique index populated with such pairs, observed List/Prefix order "
             "validated by DBTrace.tla; non-trivial = table with >= 2 rows",
        nontrivial=lambda ops: len(ops) >= 2,
        assumptions=["64-bit values are compared as sequences of 16-bit limbs (TLC integers are 32 bit)",
                     "requirements are evaluated on the logged function, not by equality with the documented scheme"])


def sched_families(tier, seed, rng, prop, n_random_q, n_random_t, n_tlc_q, n_tlc_t):
    """Schedule-replay families: random priority schedules + schedules printed by TLC from DBImpl.tla."""
    import sched_gen
    quick = tier == "quick"
    fams = [Family("sched", "sched", "SchedTrace",
                   sched_gen.generate(n_random_q if quick else n_random_t, seed * 41 + int(prop[1:])),
                   env={"VERIF_FLUSH": "1"})]
    fams.append(Family("sched-directed", "sched", "SchedTrace",
                       sched_gen.generate_directed(n_random_q if quick else n_random_t, seed * 43 + int(prop[1:])),
                       env={"VERIF_FLUSH": "1"}))
    fams.append(Family("sched-gc", "sched", "SchedTrace",
                       sched_gen.generate_gcblock(max(40, (n_random_q if quick else n_random_t) // 3), seed * 47 + int(prop[1:])),
                       env={"VERIF_FLUSH": "1"}))
    if prop in ("C05", "C10"):
        fams.append(Family("sched-many", "sched", "SchedTrace",
                           sched_gen.generate_manytables(16 if quick else 200, seed * 53 + int(prop[1:])),
                           env={"VERIF_FLUSH": "1"}))
    cfg = "GenDBImpl2.cfg" if quick else "GenDBImpl3.cfg"
    r = core.tlc("GenDBImpl", cfg=cfg, subdir="gen", workers=1, heap="6g", timeout=1500)
    if not r["ok"]:
        raise MachineryError("schedule generation failed:\n" + r.get("error", r["stdout"][-2000:]))
    hists = core.scripts_from_tlc(r["stdout"])
    total = len(hists)
    # keep the maximal ones (every transition is a prefix of one of them) and sample
    hists = [h for h in core.drop_prefixes([[str(x) for x in h] for h in hists])]
    hists = sample(hists, n_tlc_q if quick else n_tlc_t, rng)
    scripts = [sched_gen.from_tlc(rng, cfg, [int(x) for x in h]) for h in hists]
    log(f"[gen] GenDBImpl/{cfg}: transitions={r['generated']} states={r['distinct']} schedules={total} used={len(scripts)}")
    fams.append(Family("sched-tlc", "sched", "SchedTrace", scripts,
                       dict(states=r["distinct"], transitions=r["generated"], scripts_total=total), env={"VERIF_FLUSH": "1"}))
    # schedules with the graveyard collector as an actor (DBImpl.tla GScan + the writer protocol)
    cfg = "GenDBImplGC.cfg"
    r = core.tlc("GenDBImpl", cfg=cfg, subdir="gen", workers=1, heap="6g", timeout=1500)
    if not r["ok"]:
        raise MachineryError("schedule generation failed:\n" + r.get("error", r["stdout"][-2000:]))
    hists = core.drop_prefixes([[str(x) for x in h] for h in core.scripts_from_tlc(r["stdout"])])
    total = len(hists)
    hists = [h for h in hists if any(int(x) >= 30 for x in h)]
    hists = sample(hists, max(30, (n_tlc_q if quick else n_tlc_t) // 4), rng)
    scripts = [sched_gen.from_tlc(rng, cfg, [int(x) for x in h]) for h in hists]
    log(f"[gen] GenDBImpl/{cfg}: transitions={r['generated']} states={r['distinct']} schedules={total} used={len(scripts)}")
    fams.append(Family("sched-tlc-gc", "sched", "SchedTrace", scripts,
                       dict(states=r["distinct"], transitions=r["generated"], scripts_total=total), env={"VERIF_FLUSH": "1"}))
    return fams


def impl_design(tier, full=False):
    quick = tier == "quick"
    # ..GC..: with the graveyard collector as an actor (lock-free scan, then a write transaction over any subset
    # of the registered tables)
    d = [design_check("MCDBImpl", "MCDBImpl_none.cfg"), design_check("MCDBImpl", "MCDBImplGC_none.cfg")]
    if not quick:
        d.append(design_check("MCDBImpl", "MCDBImplB_none.cfg"))
        d.append(design_check("MCDBImpl", "MCDBImplLive.cfg"))
        d.append(design_check("MCDBImpl", "MCDBImplLiveB.cfg"))
        d.append(design_check("MCDBImpl", "MCDBImplGCLive.cfg"))
        if full:
            # collector + registrar + two writers: 6 M states, about 5 minutes
            d.append(design_check("MCDBImpl", "MCDBImplGCReg_none.cfg", timeout=3000))
    return d


IMPL_MUTANTS = [("MCDBImpl_unlockBeforeStore.cfg", "Inv_C05_Serial"), ("MCDBImpl_loadBeforeLock.cfg", "Inv_C05_SeesEarlier"),
                ("MCDBImpl_mergeFromBase.cfg", "Inv_C05_NoLost"), ("MCDBImpl_notifyBeforeStore.cfg", "Inv_C06_NotifyAfterStore"),
                ("MCDBImpl_regDropped.cfg", "Inv_C05_RegKept"), ("MCDBImplB_unsortedLocks.cfg", "Deadlock")]


def proof_check(name, timeout=900):
    """TLAPS proof (unbounded constants) + TLC sanity check of the same module for small constants."""
    import subprocess
    src = os.path.join(core.SPEC, "proofs")
    scratch = tempfile.mkdtemp(prefix="tlaps-")
    t0 = time.time()
    try:
        for f in os.listdir(src):
            shutil.copy(os.path.join(src, f), scratch)
        std = "/opt/veriftools/tlapm/lib/tlapm/stdlib/TLAPS.tla"
        if os.path.exists(std):
            shutil.copy(std, scratch)
        try:
            p = subprocess.run(["tlapm", "--threads", "8", name + ".tla"], cwd=scratch, capture_output=True, text=True, timeout=timeout)
        except (subprocess.TimeoutExpired, FileNotFoundError) as e:
            raise MachineryError(f"tlapm {name}: {e}")
        out = p.stdout + p.stderr
        m = re.search(r"All (\d+) obligations? proved", out)
        if p.returncode != 0 or not m:
            raise MachineryError(f"proof {name}.tla is not accepted by tlapm (a defect of the proof, not of the code):\n" + out[-2000:])
        nobl = int(m.group(1))
        p = subprocess.run(["java", f"-Djava.io.tmpdir={scratch}", "-cp", core.TLA_CP, "tlc2.TLC", "-workers", "4", "-metadir", os.path.join(scratch, "meta"),
                            "-config", f"MC{name}.cfg", f"MC{name}.tla"], cwd=scratch, capture_output=True, text=True, timeout=timeout)
        if "No error has been found" not in p.stdout:
            raise MachineryError(f"TLC sanity check of {name}.tla failed:\n" + p.stdout[-2000:])
        ms = re.search(r"(\d+) distinct states found", p.stdout)
        log(f"[proof] {name}.tla: {nobl} obligations proved by TLAPS; TLC sanity check {ms.group(1) if ms else '?'} states; {time.time()-t0:.1f}s")
        return dict(module=name, cfg="TLAPS (all constants) + MC" + name + ".cfg", states=int(ms.group(1)) if ms else 0, transitions=0,
                    wall=round(time.time() - t0, 1), obligations=nobl)
    finally:
        shutil.rmtree(scratch, ignore_errors=True)


def _sched_prop(prop, rule):
    def fn(tier, seed, rng):
        quick = tier == "quick"
        design = [design_check("MCDB", "MCDBQuick.cfg" if quick else "MCDB.cfg")] + impl_design(tier, full=(prop == "C10"))
        if not quick:
            design += [dict(mutant_check("MCDBImpl", c, e), states=0, transitions=0) for c, e in IMPL_MUTANTS]
        if prop == "C10":
            # the lock discipline for any number of tables and writers (TLAPS)
            design.append(proof_check("LockOrder"))
        fams = sched_families(tier, seed, rng, prop, 150, 3000, 250, 6000)
        if prop == "C05":
            fams.append(stress_family(tier, seed, prop))
        if prop == "C10":
            # sequential histories: with one goroutine every call must return (a lock left behind by an earlier
            # call, e.g. by closing the iterator of an aborted transaction, shows as a deadlock of the process)
            import db_gen
            for m, q, t in (("c02", 120, 2500), ("c07", 80, 1500)):
                fams.append(Family("seq-" + m, "db", "DBTrace", db_gen.generate(m, q if quick else t, seed * 67 + 10)))
        return design, fams, [prop], dict(
            rule=rule, nontrivial=lambda ops: (ops[0].get("op") != "sched") or (len(ops[0]["actors"]) >= 2 and len(ops[0]["schedule"]) >= 3),
            assumptions=["goroutines are serialised by the verif hooks: one protocol step at a time; blocked = goroutine "
                         "wait reason sync.Mutex.Lock", "bounded actor counts (<= 6 goroutines)"] + DB_ASSUME[1:3])
    return fn


def prop_C20(tier, seed, rng):
    import ws_gen
    quick = tier == "quick"
    design = [design_check("WatchSet", "MCWatchSet.cfg")]
    r = core.tlc("GenWatchSet", cfg="GenWatchSet.cfg", subdir="gen", workers=1, heap="4g", timeout=900)
    if not r["ok"]:
        raise MachineryError("scenario generation failed:\n" + r.get("error", r["stdout"][-2000:]))
    scen = core.scripts_from_tlc(r["stdout"])
    # scenarios in which the call can return at all
    def returns(s):
        s = s[0]
        return s["tc"] < 1000000 or any(s["closeAt"][str(m)] < 1000000 if isinstance(s["closeAt"], dict)
                                        else s["closeAt"][m - 1] < 1000000 for m in s["mem"])
    scen = [s for s in scen if returns(s)]
    total = len(scen)
    s1 = [ws_gen.from_tlc(s) for s in sample(scen, 3000 if quick else total, rng)]
    s2 = ws_gen.generate(1500 if quick else 30000, seed + 20)
    log(f"[gen] GenWatchSet: scenarios={total} used={len(s1)}")
    fams = [Family("tlc", "ws", "WSTrace", s1, dict(states=r["distinct"], transitions=r["generated"], scripts_total=total)),
            Family("random", "ws", "WSTrace", s2)]
    return design, fams, ["C20_"], dict(
        rule="scenarios = (a) every scenario of the bounded WatchSet.tla model (3 channels x member/non-member x close times "
             "{0,1,2,4,never} x context end {0,1,2,4,never} x cancel/deadline x settle {0,2} x call time {0,1}) that can return, "
             "(b) random scenarios with up to 6 channels, larger times, sets filled with Add or through Merge, a second Wait on the "
             "same set with Add / Merge of another set / Clear in between; executed under virtual "
             "time; non-trivial = some member closes or the context ends during the wait",
        nontrivial=lambda ops: any(c >= 0 for c in ops[0]["closeAt"]) or ops[0]["tc"] >= 0,
        assumptions=["virtual time (testing/synctest); simultaneous events may be served in any order",
                     "Add is not called concurrently with Wait (Wait holds the WatchSet mutex)"])


def alg_refinement(limit):
    """Post-pass for the rec families: are the logs behaviours of the ALGORITHM model Reconciler.tla
    (trace/RecAlgTrace.tla)?  A log that is not
    accepted means the model no longer describes the code (the design-level results obtained on it lose their
    meaning): reported as a note, never as a violation -- the properties are judged by RecTrace.tla."""
    def post(fam, sub):
        import glob
        applicable = accepted = states = 0
        drift = []
        t0 = time.time()
        for trace in sorted(glob.glob(os.path.join(sub, "rec*.trace.ndjson"))):
            bounds = trace.replace(".trace.", ".bounds.")
            bl = [json.loads(x) for x in core.read_lines(bounds)]
            ok = bl
            ok = ok[:max(0, limit - applicable)]
            if not ok:
                continue
            b2 = bounds + ".alg"
            with open(b2, "w") as f:
                f.write("".join(json.dumps(b) + "\n" for b in ok))
            r = core._validate_one("RecAlgTrace", trace, b2, "3g", 900, None)
            if not r["ok"]:
                raise core.MachineryError("RecAlgTrace: " + r["stdout"][-600:])
            out = r["stdout"]
            verd = set(int(m.group(1)) for m in core.VERDICT_RE.finditer(out))
            hw = {int(m.group(1)): int(m.group(2)) for m in re.finditer(r'<<\s*"HW",\s*(\d+),\s*(\d+),\s*(\d+)\s*>>', out)}
            lines = None
            applicable += len(ok)
            accepted += sum(1 for b in ok if b["id"] in verd)
            states += r["distinct"]
            for b in ok:
                if b["id"] not in verd:
                    if lines is None:
                        lines = core.read_lines(trace)
                    ln = hw.get(b["id"], b["s"])
                    drift.append(dict(script=b["id"], line=ln - b["s"] + 1, event=json.loads(lines[ln - 1]) if 0 < ln <= len(lines) else None))
        log(f"[refinement] family={fam.name} spec=RecAlgTrace (Reconciler.tla): accepted {accepted} of {applicable} logs, "
            f"states={states} {time.time()-t0:.1f}s")
        for d in drift[:3]:
            log(f"[note] model drift: the log of script {d['script']} (family {fam.name}) is not a behaviour of Reconciler.tla; "
                f"first step without a counterpart: event {d['line']}: {json.dumps(d['event'])[:300]}")
        return dict(algorithm_refinement=dict(spec="trace/RecAlgTrace.tla", applicable=applicable, accepted=accepted,
                                              states=states, rejected=[dict(script=d["script"], event=d["line"]) for d in drift[:20]]))
    return post


def _rec_prop(prop, rule):
    def fn(tier, seed, rng):
        import rec_gen
        quick = tier == "quick"
        design = [design_check("Reconciler", "MCReconcilerQuick.cfg" if quick else "MCReconciler_fixed.cfg"),
                  # batch mode (round of 2 collected, DeleteBatch before UpdateBatch)
                  design_check("Reconciler", "MCReconcilerBatch.cfg" if quick else "MCReconcilerBatch3.cfg")]
        if not quick:
            # single operations with a round of 2 (two results per status commit, written in either order)
            design.append(design_check("Reconciler", "MCReconcilerRound2.cfg"))
            design += [dict(mutant_check("Reconciler", "MCReconciler_dropRetry.cfg", "Live_C14"), states=0, transitions=0),
                       dict(mutant_check("Reconciler", "MCReconciler_staleRetry.cfg", "Prop_C15_StatusOnly"), states=0, transitions=0),
                       dict(mutant_check("Reconciler", "MCReconciler_driftOrig.cfg", "Inv_C16_LowWatermark"), states=0, transitions=0)]
        n = 1 if quick else 20
        post = alg_refinement(150 if quick else 1000)
        fams = [Family("general", "rec", "RecTrace", rec_gen.generate("general", 250 * n, seed * 53 + int(prop[1:])), post=post),
                Family("backoff", "rec", "RecTrace", rec_gen.generate("backoff", 120 * n, seed * 59 + int(prop[1:])), post=post),
                Family("inflight", "rec", "RecTrace", rec_gen.generate("inflight", 200 * n, seed * 61 + int(prop[1:])), post=post),
                Family("retrywindow", "rec", "RecTrace", rec_gen.generate("retrywindow", 250 * n, seed * 71 + int(prop[1:])), post=post),
                Family("lowwatermark", "rec", "RecTrace", rec_gen.generate("lowwatermark", 150 * n, seed * 73 + int(prop[1:])), post=post),
                Family("refresh", "rec", "RecTrace", rec_gen.generate("refresh", 120 * n, seed * 79 + int(prop[1:])), post=post),
                Family("sharedset", "rec", "RecTrace", rec_gen.generate("sharedset", 150 * n, seed * 83 + int(prop[1:])), post=post)]
        return design, fams, [prop], dict(
            rule=rule, nontrivial=lambda ops: any(o["op"] in ("fail", "inject") for o in ops),
            assumptions=["virtual time (testing/synctest); operations are instantaneous; refresh loop enabled in family refresh and a fifth of the other non-idle scripts",
                         "every commit to the reconciled table is observed at its linearization point (hook commit.stored)",
                         "pacing slack = 2 x rate-limiter interval + 2 ms"])
    return fn


PROPS = {
    "C14": _rec_prop("C14", "environment scripts: user upsert/delete/re-insert/status-only writes on 1-4 objects, per-call failure "
                            "patterns (<= 6 failures), writes injected while Update/Delete is in flight, round size 1/2/3/1000, batch and "
                            "single mode, backoff 50-3200 ms, pruning; after the last failure/change virtual time advances by "
                            "(failures + 2) x (max backoff + 100 ms) and table and target are compared; family refresh runs the "
                            "refresh loop (interval 120-700 ms) with failures and writes during refresh-triggered updates"),
    "C15": _rec_prop("C15", "as C14 with emphasis on user writes (update, delete, delete+re-insert, status-only change keeping the "
                            "pending id) placed between an operation and its status commit; every commit of the reconciler is "
                            "checked against the last operation for that object"),
    "C16": _rec_prop("C16", "as C14 plus one failing object on an otherwise idle reconciler (exact pacing: minimum, non-shrinking, cap, "
                            "reset after change) and WaitUntilReconciled probes at arbitrary and at quiescent moments"),
    "C20": prop_C20,
    "C05": _sched_prop("C05", "configurations of 2-3 writers over overlapping and disjoint table sets (any order, duplicates), "
                              "readers, a registrar calling NewTable while transactions are open, iterator close and the "
                              "graveyard collector, replayed under random priority schedules with a probe of the committed "
                              "state after every protocol step"),
    "C10": _sched_prop("C10", "as C05; every blocked goroutine must be explained by a transaction sharing a table (or by the "
                              "root mutex being held), probes (readers) must complete at every gate, all actors must finish; plus "
                              "sequential histories (families seq-c02, seq-c07: aborted transactions that created iterators, "
                              "iterator closes, collection) in which every call must return"),
    "C18": prop_C18,
    "C17": prop_C17,
    "C01": _db_prop("C01", "c01", 300, 6000,
                    "shaped sequential histories over tables with primary, unique, multi-key non-unique, unique and "
                    "non-unique LPM indexes; snapshots are retained and the same queries re-issued after later "
                    "committed/aborted/pending transactions and graveyard collection; non-trivial = script re-queries "
                    "a retained snapshot after a later write transaction; family c01dense: dense primary keys (all strings "
                    "over two letters up to length 3), 2-3 writes per transaction with no query in between, half of them "
                    "touching a key and then deleting it, every earlier snapshot re-read key by key", _nt_requery,
                    extra_modes=(("c07", 100, 2000), ("lpmshared", 150, 3000), ("c01dense", 150, 3000), ("stress", 0, 0))),
    "C02": _db_prop("C02", "c02", 300, 6000,
                    "histories in which about half of the write transactions (with writes on every index kind, "
                    "Changes(), initializer registration, InsertWatch) abort; the complete query battery, revisions, "
                    "channel bits and later transactions are compared with the pre-transaction state; non-trivial = "
                    "script contains an aborted transaction followed by the battery", _nt_abort,
                    extra_modes=(("c07", 150, 3000), ("c19", 100, 2000), ("lpmshared", 100, 2000), ("c02dense", 120, 2500), ("sched", 150, 3000), ("stress", 0, 0))),
    "C03": _db_prop("C03", "c03", 400, 8000,
                    "Insert/InsertWatch/Modify/Delete/DeleteAll/CompareAndSwap/CompareAndDelete with guards "
                    "{current, stale, future}, missing and present objects, tables not held, finished transactions; "
                    "replies, errors and the state after rejected operations are compared; families c07/gcwindow: the same "
                    "writes while change iterators are registered (deleted objects are then kept as tombstones that a "
                    "later write of the key meets); non-trivial = >= 2 writes",
                    _nt_write, extra_modes=(("kf_n", 20, 100), ("c07", 150, 3000), ("gcwindow", 80, 1500), ("dbfan", 16, 300)), tlc_gen=True),
    "C04": _db_prop("C04", "c04", 250, 5000,
                    "complete query battery (Get/List/Prefix/LowerBound/All/NumObjects/ByRevision on primary, unique, "
                    "multi-key, LPM unique/non-unique indexes; keys empty, prefixes of one another, 0x00/0x01/0xff) on "
                    "fresh snapshots and inside write transactions after key-set changing updates; non-trivial = >= 2 writes",
                    _nt_write, extra_modes=(("lpmshared", 100, 2000), ("derive", 60, 1200), ("dbfan", 16, 300)), tlc_gen=True),
    "C06": _db_prop("C06", "c06", 300, 6000,
                    "watch channels of every query kind on every index kind taken from fresh snapshots before each "
                    "transaction plus InsertWatch; channel bits sampled at hand-out and after every commit/abort; "
                    "family c06lpm: 2..8 objects under one prefix of the non-unique LPM index, Get/List/Prefix/LowerBound "
                    "watches through that index renewed after every commit; "
                    "non-trivial = a tracked channel exists when a transaction ends", _nt_watch,
                    extra_modes=(("c07", 100, 2000), ("kf_l", 20, 100), ("c06inner", 150, 3000), ("c06dense", 400, 8000), ("c06lpm", 120, 2500), ("c06fan", 40, 800), ("c06merge", 60, 1200), ("c06big", 24, 480), ("sched", 120, 2500)), tlc_gen=True),
    "C07": _db_prop("C07", "c07", 400, 8000,
                    "up to 4 change iterators created at arbitrary points (also in aborted transactions); Next with "
                    "fresh/retained snapshots and write transactions holding uncommitted changes of the table, full and "
                    "partial consumption, re-inserts after deletes, virtual-time graveyard collection in between; "
                    "family sched: an iterator consumer among concurrent writers (snapshots taken between the store of a new "
                    "root and the closing of the watch channels, partial then full consumption); "
                    "non-trivial = Next after a delete", _nt_iter, extra_modes=(("gcwindow", 150, 3000), ("graveyard", 0, 0), ("sched", 100, 2000))),
    "C08": _db_prop("C08", "c08", 400, 8000,
                    "as C07 with graveyard size observed (public Metrics) after virtual-time waits: lower bound always, "
                    "exact after quiescence; non-trivial = Next after a delete", _nt_iter,
                    extra_modes=(("gcwindow", 200, 4000), ("graveyard", 0, 0), ("sched", 100, 2000))),
    "C09": _db_prop("C09", "c09", 300, 6000,
                    "as C03 plus Table.Revision on every source and ByRevision queries for bounds 0..8; non-trivial = "
                    ">= 2 writes", _nt_write, tlc_gen=True),
    "C19": _db_prop("C19", "c19", 400, 8000,
                    "up to 3 initializers registered/completed across committed and aborted transactions mixed with "
                    "writes; Initialized/PendingInitializers on every snapshot and transaction, init channel bits after "
                    "every commit/abort; non-trivial = a registration and a completion", _nt_init,
                    extra_modes=(("derive", 60, 1200), ("sched", 100, 2000))),
    "C11": prop_C11,
    "C12": prop_C12,
    "C13": prop_C13,
}


# ----------------------------------------------------------------------------------------------

def run_check(prop, tier):
    seed = seed_of()
    rng = random.Random(seed * 7919 + int(prop[1:]))
    t0 = time.time()
    scratch = tempfile.mkdtemp(prefix=f"vcheck-{prop}-")
    try:
        design, fams, prefixes, meta = PROPS[prop](tier, seed, rng)
        known = core.load_known()
        states = sum(d["states"] for d in design)
        trans = sum(d["transitions"] for d in design)
        traces = events = 0
        bad_all, other_all = [], []
        samples = []
        nontrivial = set()
        fam_stats = []
        for fam in fams:
            if not fam.scripts:
                continue
            res = core.run_family(fam, scratch, prefixes)
            traces += res["traces"]
            events += res["events"]
            states += res["states"] + fam.gen_stats.get("states", 0)
            trans += res["transitions"] + fam.gen_stats.get("transitions", 0)
            fam_stats.append(dict(family=fam.name, driver=fam.driver, trace_spec=fam.trace_module,
                                  scripts=len(fam.scripts), events=res["events"], validation_states=res["states"],
                                  generation=fam.gen_stats))
            if fam.post is not None:
                try:
                    extra = fam.post(fam, os.path.join(scratch, fam.name))
                except Exception as e:  # this pass never judges: whatever goes wrong in it is a note
                    extra = dict(error=str(e)[:300])
                    log(f"[note] post-pass of family {fam.name} did not complete: {str(e)[:200]}")
                fam_stats[-1].update(extra)
                states += extra.get("algorithm_refinement", {}).get("states", 0)
            for ops in fam.scripts:
                try:
                    nt = meta["nontrivial"](ops)
                except (KeyError, IndexError, TypeError):
                    nt = len(ops) >= 2
                if nt:
                    nontrivial.add(json.dumps(ops, sort_keys=True))
            if fam.scripts:
                samples.append({"family": fam.name, "script": fam.scripts[0][:40]})
            for rec in res["bad"]:
                bad_all.append((fam, rec))
            for rec in res["other"]:
                other_all.append((fam, rec))
        violations = 0
        seen_known = set()
        per_inv = {}
        by_inv = {}
        for fam, rec in bad_all:
            by_inv[rec[2]] = by_inv.get(rec[2], 0) + 1
        if by_inv:
            log("[violations by invariant] " + json.dumps(by_inv, sort_keys=True))
        for fam, (sid, ln, inv, ev, ops) in bad_all:
            k = core.match_known(prop, inv, ev, known)
            if k is not None:
                if k["id"] not in seen_known:
                    print(f"KNOWN-FINDING: property={prop} {k['id']}: {k['description']}")
                    seen_known.add(k["id"])
                continue
            violations += 1
            per_inv[inv] = per_inv.get(inv, 0) + 1
            if per_inv[inv] <= 3:
                path = core.save_replay(prop, fam.driver, fam.trace_module, ops, inv, ev)
                print(f"VIOLATION property={prop} replay={path}")
                log(f"  invariant={inv} family={fam.name} script={sid} event={_evstr(ev)[:400]}")
        for fam, (sid, ln, inv, ev, ops) in other_all[:5]:
            opath = core.save_replay(prop + "-other", fam.driver, fam.trace_module, ops, inv, ev)
            log(f"[note] a trace of this run first violates an invariant of another property: {inv} "
                f"(family {fam.name}, script {sid}); it is reported by that property's own check ({opath})")
        cov = dict(states=states, transitions=trans, traces_validated_against_impl=traces,
                   samples=samples, evaluations=events, distinct_nontrivial=len(nontrivial),
                   rule=meta["rule"], design_checks=design, families=fam_stats,
                   other_property_first_violations=len(other_all), exhaustive=False)
        core.write_evidence(prop, tier, seed, cov, time.time() - t0, violations, meta["assumptions"])
        log(f"[done] {prop} tier={tier} traces={traces} events={events} violations={violations} "
            f"wall={time.time()-t0:.1f}s")
        return 1 if violations else 0
    finally:
        shutil.rmtree(scratch, ignore_errors=True)


def _evstr(ev):
    return json.dumps({k: v for k, v in (ev or {}).items() if k != "_recorded"})


def replay(path):
    body = json.load(open(path))
    scratch = tempfile.mkdtemp(prefix="vreplay-")
    try:
        fam = Family("replay", body["driver"], body["trace_module"], [body["ops"]])
        prop = body["property"].split("-")[0]
        # (the judgement that belongs to the property of the file, if the log has one; else its first violation)
        res = core.run_family(fam, scratch, [prop])
        recs = res["bad"] or res["other"]
        if not recs:
            print("replay: no invariant violated")
            return 0
        known = core.load_known()
        rc = 0
        for sid, ln, inv, ev, ops in recs:
            print(f"replay: first violated invariant {inv} at event {ln}: {_evstr(ev)}")
            k = core.match_known(prop, inv, ev, known)
            if k is not None:
                print(f"KNOWN-FINDING: property={prop} {k['id']}: {k['description']}")
            else:
                rc = 1
        if rc:
            print(f"VIOLATION property={prop} replay={path}")
        return rc
    finally:
        shutil.rmtree(scratch, ignore_errors=True)


def setup():
    import subprocess
    # syntax/semantic check of every specification
    bad = 0
    for sub in ("", "mc", "gen", "trace"):
        d = os.path.join(core.SPEC, sub)
        if not os.path.isdir(d):
            continue
        for f in sorted(os.listdir(d)):
            if not f.endswith(".tla"):
                continue
            scratch = tempfile.mkdtemp(prefix="sany-")
            try:
                core._stage([core.SPEC, d], scratch)
                p = subprocess.run(["java", "-cp", core.TLA_CP, "tla2sany.SANY", f], cwd=scratch,
                                   capture_output=True, text=True)
                if p.returncode != 0 or "Semantic errors" in p.stdout or "Parsing or semantic analysis failed" in p.stdout \
                        or "*** Errors" in p.stdout:
                    print(f"SANY failed on {sub}/{f}:\n{p.stdout[-1500:]}")
                    bad += 1
            finally:
                shutil.rmtree(scratch, ignore_errors=True)
    core.build_harness()
    print("setup ok" if not bad else "setup FAILED")
    return 0 if not bad else 2


def main(argv):
    if not argv:
        print(__doc__)
        return 2
    try:
        if argv[0] == "setup":
            return setup()
        if argv[0] == "replay":
            return replay(argv[1])
        if argv[0] == "shrink":
            body = json.load(open(argv[1]))
            ops = core.shrink(body["driver"], body["trace_module"], body["ops"], body["invariant"])
            for o in ops:
                print(json.dumps(o))
            scratch = tempfile.mkdtemp(prefix="vexplain-")
            try:
                res = core.run_family(Family("x", body["driver"], body["trace_module"], [ops]), scratch, [""])
                for sid, ln, inv, ev, _ in res["bad"]:
                    print("INVARIANT", inv)
                    print("EVENT    ", json.dumps({k: v for k, v in ev.items() if k != "_expected"}))
                    print("EXPECTED ", ev.get("_expected"))
            finally:
                shutil.rmtree(scratch, ignore_errors=True)
            return 0
        prop = argv[0]
        tier = os.environ.get("VERIF_TIER", "quick")
        if "--tier" in argv:
            tier = argv[argv.index("--tier") + 1]
        if prop not in PROPS:
            print(f"unknown property {prop}")
            return 2
        return run_check(prop, tier)
    except MachineryError as e:
        log("MACHINERY ERROR:", e)
        return 2
