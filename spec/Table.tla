------------------------------- MODULE Table -------------------------------
(***************************************************************************)
(* One statedb table as a pure value: its live objects with revisions, the *)
(* table revision, the *ideal* graveyard (every deletion not superseded by *)
(* a re-insert), the registered delete trackers and pending initializers.  *)
(* Write operators return the new table value together with the documented *)
(* reply; query operators return the exact ordered result of every query   *)
(* kind on every index kind (C03, C04, C09).                               *)
(*                                                                         *)
(* Object (as logged by the harness):                                      *)
(*   [pk, val, hasU, u, tags, pfx, hasUp, upfx]                            *)
(*   pk    primary key (byte string)         index "id"   unique           *)
(*   u     optional unique secondary key     index "u"    unique           *)
(*   tags  sequence of byte strings          index "tags" non-unique multi *)
(*   pfx   sequence of bit prefixes          index "pfx"  non-unique LPM   *)
(*   upfx  optional bit prefix               index "upfx" unique LPM       *)
(* Entry: [o |-> object, rev |-> revision].  objs is ascending by pk.      *)
(***************************************************************************)
EXTENDS Bytes, TLC

EmptyTable == [ objs |-> << >>, rev |-> 0, grave |-> << >>, trk |-> {}, pend |-> << >> ]

MergeVal(o, n) == (o * 3 + n) % 11

PkLess(a, b) == Less(a, b)
PosPk(objs, pk) == Cardinality({ i \in 1..Len(objs) : Less(objs[i].o.pk, pk) }) + 1
HasPk(objs, pk) == LET p == PosPk(objs, pk) IN p <= Len(objs) /\ objs[p].o.pk = pk
EntOf(objs, pk) == objs[PosPk(objs, pk)]
PutEnt(objs, e) ==
    LET p == PosPk(objs, e.o.pk) IN
    IF p <= Len(objs) /\ objs[p].o.pk = e.o.pk THEN [objs EXCEPT ![p] = e]
    ELSE SubSeq(objs, 1, p - 1) \o << e >> \o SubSeq(objs, p, Len(objs))
DelEnt(objs, pk) == LET p == PosPk(objs, pk) IN SubSeq(objs, 1, p - 1) \o SubSeq(objs, p + 1, Len(objs))

Row(e)  == << e.o.pk, e.o.val, e.rev >>
Rows(s) == [ i \in 1..Len(s) |-> Row(s[i]) ]
NoRow   == << >>

-----------------------------------------------------------------------------
\* Write operators.  Reply = [ts, had, old, err]; a rejected operation returns ts unchanged.

Reply(ts, had, old, err) == [ts |-> ts, had |-> had, old |-> old, err |-> err]

Upsert(ts, o, val) ==
    LET r == ts.rev + 1 IN
    [ts EXCEPT !.rev = r,
               !.objs = PutEnt(ts.objs, [o |-> [o EXCEPT !.val = val], rev |-> r]),
               !.grave = SelectSeq(ts.grave, LAMBDA g : g.pk # o.pk)]

TInsert(ts, o) ==
    LET had == HasPk(ts.objs, o.pk) IN
    Reply(Upsert(ts, o, o.val), had, IF had THEN Row(EntOf(ts.objs, o.pk)) ELSE NoRow, "")

TModify(ts, o) ==
    LET had == HasPk(ts.objs, o.pk)
        old == EntOf(ts.objs, o.pk) IN
    Reply(Upsert(ts, o, IF had THEN MergeVal(old.o.val, o.val) ELSE o.val), had,
          IF had THEN Row(old) ELSE NoRow, "")

\* CompareAndSwap as documented: the object must exist with exactly revision g
TCas(ts, o, g) ==
    LET had == HasPk(ts.objs, o.pk)
        old == EntOf(ts.objs, o.pk) IN
    IF ~had THEN Reply(ts, FALSE, NoRow, "NotFound")
    ELSE IF old.rev # g THEN Reply(ts, TRUE, Row(old), "RevNotEqual")
    ELSE Reply(Upsert(ts, o, o.val), TRUE, Row(old), "")

Remove(ts, pk) ==
    LET r == ts.rev + 1
        old == EntOf(ts.objs, pk) IN
    [ts EXCEPT !.rev = r,
               !.objs = DelEnt(ts.objs, pk),
               \* tracked: a delete tracker was registered, so the implementation keeps the object in its graveyard
               !.grave = Append(ts.grave, [pk |-> pk, val |-> old.o.val, rev |-> r, tracked |-> ts.trk # {}])]

TDelete(ts, o) ==
    LET had == HasPk(ts.objs, o.pk) IN
    IF ~had THEN Reply(ts, FALSE, NoRow, "")
    ELSE Reply(Remove(ts, o.pk), TRUE, Row(EntOf(ts.objs, o.pk)), "")

TCad(ts, o, g) ==
    LET had == HasPk(ts.objs, o.pk)
        old == EntOf(ts.objs, o.pk) IN
    IF ~had THEN Reply(ts, FALSE, NoRow, "")
    ELSE IF old.rev # g THEN Reply(ts, TRUE, Row(old), "RevNotEqual")
    ELSE Reply(Remove(ts, o.pk), TRUE, Row(old), "")

RECURSIVE RemoveAll(_, _)
RemoveAll(ts, pks) == IF pks = << >> THEN ts ELSE RemoveAll(Remove(ts, Head(pks)), Tail(pks))
TDeleteAll(ts) == Reply(RemoveAll(ts, [i \in 1..Len(ts.objs) |-> ts.objs[i].o.pk]), FALSE, NoRow, "")

-----------------------------------------------------------------------------
\* Query operators.  Every result is a sequence of rows <<pk, val, rev>>.

\* order on <<index key, primary key>> pairs: index key first, then primary key
PairLess(a, b) == Less(a[1], b[1]) \/ (a[1] = b[1] /\ Less(a[2], b[2]))
RECURSIVE SortPairs(_)
SortPairs(S) ==
    IF S = {} THEN << >>
    ELSE LET m == CHOOSE x \in S : \A y \in S : x = y \/ PairLess(x, y)
         IN  << m >> \o SortPairs(S \ {m})

\* all <<key, pk>> pairs of an index, ascending
IdxPairs(ts, idx) ==
    LET E == 1..Len(ts.objs) IN
    CASE idx = "id"   -> [ i \in E |-> << ts.objs[i].o.pk, ts.objs[i].o.pk >> ]
      [] idx = "u"    -> SortPairs({ << ts.objs[i].o.u, ts.objs[i].o.pk >> : i \in { j \in E : ts.objs[j].o.hasU } })
      [] idx = "tags" -> SortPairs(UNION { { << ts.objs[i].o.tags[j], ts.objs[i].o.pk >> :
                                               j \in 1..Len(ts.objs[i].o.tags) } : i \in E })
      [] idx = "pfx"  -> SortPairs(UNION { { << ts.objs[i].o.pfx[j], ts.objs[i].o.pk >> :
                                               j \in 1..Len(ts.objs[i].o.pfx) } : i \in E })
      [] idx = "upfx" -> SortPairs({ << ts.objs[i].o.upfx, ts.objs[i].o.pk >> : i \in { j \in E : ts.objs[j].o.hasUp } })

PairsToRows(ts, ps) == [ i \in 1..Len(ps) |-> Row(EntOf(ts.objs, ps[i][2])) ]

\* keep the first pair of every primary key (multi-key part indexes report an object once)
Dedup(ps) == SelectSeq([ i \in 1..Len(ps) |-> IF \E j \in 1..(i - 1) : ps[j][2] = ps[i][2] THEN << >> ELSE ps[i] ],
                       LAMBDA x : x # << >>)

IsLPM(idx) == idx \in {"pfx", "upfx"}

\* longest stored prefix covering key (full-length key or stored prefix)
LpmBest(ps, key) ==
    LET C == { i \in 1..Len(ps) : IsPrefixOf(ps[i][1], key) } IN
    IF C = {} THEN << >>
    ELSE LET b == CHOOSE i \in C : \A j \in C : Len(ps[j][1]) <= Len(ps[i][1]) IN ps[b][1]
LpmInDomain(ps, key) ==
    (\E i \in 1..Len(ps) : ps[i][1] = key) \/ (\A i \in 1..Len(ps) : Len(ps[i][1]) <= Len(key))

\* objects by revision (ascending)
RECURSIVE SortByRev(_)
SortByRev(S) ==
    IF S = {} THEN << >>
    ELSE LET m == CHOOSE x \in S : \A y \in S : x.rev <= y.rev IN << m >> \o SortByRev(S \ {m})
ByRev(ts) == SortByRev({ ts.objs[i] : i \in 1..Len(ts.objs) })

\* the query: idx in {"id","u","tags","pfx","upfx","rev"}, q in {"get","list","prefix","lowerbound","all"}
\* key is a byte string, a bit prefix (LPM) or <<revision>> (rev index)
Query(ts, idx, q, key) ==
    IF q = "all" THEN Rows(ts.objs)
    ELSE IF idx = "rev" THEN
        LET s == ByRev(ts) IN
        IF q = "lowerbound" THEN Rows(SelectSeq(s, LAMBDA e : e.rev >= key[1]))
        ELSE Rows(SelectSeq(s, LAMBDA e : e.rev = key[1]))
    ELSE
        LET ps == IdxPairs(ts, idx) IN
        IF IsLPM(idx) THEN
            CASE q \in {"get", "list"} ->
                    LET b == LpmBest(ps, key)
                        m == SelectSeq(ps, LAMBDA p : p[1] = b /\ IsPrefixOf(p[1], key))
                    IN PairsToRows(ts, IF q = "get" /\ Len(m) > 1 THEN << m[1] >> ELSE m)
              [] q = "prefix"     -> PairsToRows(ts, SelectSeq(ps, LAMBDA p : IsPrefixOf(key, p[1])))
              [] q = "lowerbound" -> PairsToRows(ts, SelectSeq(ps, LAMBDA p : LessEq(key, p[1])))
        ELSE
            CASE q = "get"        -> LET m == SelectSeq(ps, LAMBDA p : p[1] = key)
                                     IN PairsToRows(ts, IF Len(m) > 1 THEN << m[1] >> ELSE m)
              [] q = "list"       -> PairsToRows(ts, SelectSeq(ps, LAMBDA p : p[1] = key))
              [] q = "prefix"     -> PairsToRows(ts, Dedup(SelectSeq(ps, LAMBDA p : IsPrefixOf(key, p[1]))))
              [] q = "lowerbound" -> PairsToRows(ts, Dedup(SelectSeq(ps, LAMBDA p : LessEq(key, p[1]))))

\* is the query inside the domain the properties speak about?
QueryInDomain(ts, idx, q, key) ==
    IF IsLPM(idx) /\ q \in {"get", "list"} THEN LpmInDomain(IdxPairs(ts, idx), key) ELSE TRUE

\* AllWatch is table-wide (any change to the table); every other watch is judged by its query result
\* (LowerBoundWatch closes on any change of *its index*, which covers every change of its result)
TableWide(idx, q) == q = "all"

NumObjects(ts) == Len(ts.objs)

-----------------------------------------------------------------------------
\* Well-formedness (C09 on the value level)
RevsOf(ts) == { ts.objs[i].rev : i \in 1..Len(ts.objs) }
TableOK(ts) ==
    /\ \A i \in 1..(Len(ts.objs) - 1) : Less(ts.objs[i].o.pk, ts.objs[i + 1].o.pk)
    /\ Cardinality(RevsOf(ts)) = Len(ts.objs)                 \* live objects: pairwise distinct revisions
    /\ \A r \in RevsOf(ts) : r <= ts.rev /\ r > 0
    /\ \A i \in 1..Len(ts.grave) : ts.grave[i].rev <= ts.rev /\ ~HasPk(ts.objs, ts.grave[i].pk)
    \* table revision = revision of the latest successful write (an upsert or a delete)
    /\ ts.rev = 0 \/ ts.rev \in RevsOf(ts) \/ \E i \in 1..Len(ts.grave) : ts.grave[i].rev = ts.rev
=============================================================================
