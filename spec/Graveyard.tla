----------------------------- MODULE Graveyard -----------------------------
(***************************************************************************)
(* Design-level model of change iterators, delete trackers and the         *)
(* graveyard collector of one table (iterator.go, deletetracker.go,        *)
(* graveyard.go, the graveyard handling of write_txn.go), at the           *)
(* granularity at which the implementation can be interleaved:             *)
(*   - a write commits atomically (table lock + root swap);                *)
(*   - Next(snapshot) fixes its batch from the snapshot; the changes are   *)
(*     then handed out one by one, each delivered deletion moving the      *)
(*     tracker's mark (and triggering the collector);                      *)
(*   - the collector scans a snapshot without any lock (low watermark =    *)
(*     min(table revision, marks of the registered trackers); dead = the   *)
(*     graveyard entries at or below it) and removes exactly those entries *)
(*     in a later write transaction (hooks gc.scanned / gc.committed).     *)
(* DB.tla states WHAT an iterator must deliver against an ideal graveyard; *)
(* this module checks that the marking/collection algorithm provides it    *)
(* (C07: a fully consumed Next leads exactly to its snapshot; C08: what an *)
(* open iterator still needs is retained, everything else is eventually    *)
(* discarded).                                                             *)
(***************************************************************************)
EXTENDS Integers, Sequences, FiniteSets, TLC

CONSTANTS Keys, Iters, MaxRev,
          Mutant   \* "none" | "ignoreZero" | "closeNoTrigger" | "keepOnReinsert" | "markSnapshot" | "reuseRevision" | "dropTriggerAfterPass"

VARIABLES rev,      \* table revision
          live,     \* k -> revision of the live object (0 = absent)
          grave,    \* the implementation's graveyard: set of [k, r]
          ideal,    \* ghost: every deletion not superseded by a re-insert: set of [k, r]
          it,       \* i -> iterator/tracker state (see NoIter)
          gc,       \* [phase, dead]
          trig      \* a collection has been requested (gcTrigger holds a token)
vars == << rev, live, grave, ideal, it, gc, trig >>

NoIter == [st |-> "none", mark |-> 0, urev |-> 0, drev |-> 0, born |-> 0, rep |-> [k \in Keys |-> 0],
           batch |-> << >>, inb |-> FALSE, snap |-> [k \in Keys |-> 0], fin |-> FALSE]

Init ==
    /\ rev = 0 /\ live = [k \in Keys |-> 0] /\ grave = {} /\ ideal = {}
    /\ it = [i \in Iters |-> NoIter]
    /\ gc = [phase |-> "idle", dead |-> {}] /\ trig = FALSE

Registered == { i \in Iters : it[i].st = "reg" }
ClearFin == [i \in Iters |-> [it[i] EXCEPT !.fin = FALSE]]

\* ------------------------------------------------------------------ writes
Upsert(k) ==
    /\ rev < MaxRev
    /\ rev' = rev + 1
    /\ live' = [live EXCEPT ![k] = rev + 1]
    \* a (re-)insert takes the object's tombstone out of the graveyard
    /\ grave' = IF Mutant = "keepOnReinsert" THEN grave ELSE { g \in grave : g.k # k }
    /\ ideal' = { g \in ideal : g.k # k }
    /\ it' = ClearFin
    /\ UNCHANGED << gc, trig >>

Delete(k) ==
    /\ rev < MaxRev /\ live[k] # 0
    /\ LET r == IF Mutant = "reuseRevision" THEN live[k] ELSE rev + 1 IN
       /\ rev' = IF Mutant = "reuseRevision" THEN rev ELSE rev + 1
       /\ live' = [live EXCEPT ![k] = 0]
       \* tombstones are kept only while some tracker is registered
       /\ grave' = IF Registered # {} THEN grave \cup {[k |-> k, r |-> r]} ELSE grave
       /\ ideal' = ideal \cup {[k |-> k, r |-> r]}
    /\ it' = ClearFin
    /\ UNCHANGED << gc, trig >>

\* ------------------------------------------------------------- iterators
\* Changes() in a committed transaction: sees every object (revision 0), no deletion made so far
NewIter(i) ==
    /\ it[i].st = "none"
    /\ it' = [ClearFin EXCEPT ![i] = [NoIter EXCEPT !.st = "reg", !.mark = rev, !.drev = rev, !.born = rev]]
    /\ UNCHANGED << rev, live, grave, ideal, gc, trig >>

\* the changes a snapshot taken now holds for i, in revision order (deletions first among equals)
RECURSIVE SortByRev(_)
SortByRev(S) ==
    IF S = {} THEN << >>
    ELSE LET m == CHOOSE x \in S : \A y \in S : x.r < y.r \/ (x.r = y.r /\ (x.del \/ ~y.del)) IN
         << m >> \o SortByRev(S \ {m})
BatchOf(i) ==
    SortByRev({ [k |-> k, r |-> live[k], del |-> FALSE] : k \in { x \in Keys : live[x] > it[i].urev } }
              \cup { [k |-> g.k, r |-> g.r, del |-> TRUE] : g \in { h \in grave : h.r > it[i].drev } })

NextStart(i) ==
    /\ it[i].st = "reg" /\ ~it[i].inb
    /\ it' = [ClearFin EXCEPT ![i].batch = BatchOf(i), ![i].inb = TRUE, ![i].snap = live]
    /\ UNCHANGED << rev, live, grave, ideal, gc, trig >>

Deliver(i) ==
    /\ it[i].inb /\ it[i].batch # << >>
    /\ LET h == Head(it[i].batch) IN
       /\ it' = [it EXCEPT ![i].batch = Tail(@),
                           ![i].rep = [@ EXCEPT ![h.k] = IF h.del THEN 0 ELSE h.r],
                           ![i].urev = IF h.del THEN @ ELSE h.r,
                           ![i].drev = IF h.del THEN h.r ELSE @,
                           ![i].mark = IF h.del THEN h.r ELSE @]
       /\ trig' = (trig \/ h.del)
    /\ UNCHANGED << rev, live, grave, ideal, gc >>

\* the sequence was consumed to its end
Finish(i) ==
    /\ it[i].inb /\ it[i].batch = << >>
    /\ it' = [it EXCEPT ![i].inb = FALSE, ![i].fin = TRUE,
                        \* (mutant: the mark jumps to the snapshot's revision although nothing says that the
                        \*  deletions up to it were part of THIS snapshot's graveyard)
                        ![i].mark = IF Mutant = "markSnapshot" THEN rev ELSE @]
    /\ UNCHANGED << rev, live, grave, ideal, gc, trig >>

\* the consumer broke out of the loop: the rest of the batch is dropped, the next Next re-queries
Break(i) ==
    /\ it[i].inb /\ it[i].batch # << >>
    /\ it' = [it EXCEPT ![i].inb = FALSE, ![i].batch = << >>]
    /\ UNCHANGED << rev, live, grave, ideal, gc, trig >>

Close(i) ==
    /\ it[i].st = "reg"
    /\ it' = [ClearFin EXCEPT ![i] = [NoIter EXCEPT !.st = "closed"]]
    /\ trig' = IF Mutant = "closeNoTrigger" /\ Registered \ {i} # {} THEN trig ELSE TRUE
    /\ UNCHANGED << rev, live, grave, ideal, gc >>

\* ------------------------------------------------------------- collector
Min(S) == CHOOSE x \in S : \A y \in S : x <= y
LowWatermark ==
    Min({rev} \cup { it[i].mark : i \in { j \in Registered : Mutant # "ignoreZero" \/ it[j].mark # 0 } })

GCScan ==
    /\ trig /\ gc.phase = "idle"
    /\ trig' = FALSE
    /\ LET dead == { g \in grave : g.r <= LowWatermark } IN
       gc' = IF dead = {} THEN gc ELSE [phase |-> "scanned", dead |-> dead]
    /\ UNCHANGED << rev, live, grave, ideal, it >>

GCApply ==
    /\ gc.phase = "scanned"
    /\ grave' = grave \ gc.dead
    /\ gc' = [phase |-> "idle", dead |-> {}]
    \* (mutant: requests that arrived during the pass are dropped as "served by it", although the set the pass
    \*  removes was fixed by its scan)
    /\ trig' = IF Mutant = "dropTriggerAfterPass" THEN FALSE ELSE trig
    /\ UNCHANGED << rev, live, ideal, it >>

Env == \E k \in Keys : Upsert(k) \/ Delete(k)
Iter == \E i \in Iters : NewIter(i) \/ NextStart(i) \/ Deliver(i) \/ Finish(i) \/ Break(i) \/ Close(i)
Collector == GCScan \/ GCApply
Next == Env \/ Iter \/ Collector
Spec == Init /\ [][Next]_vars
\* fairness for the drain property: the collector runs, consumers finish what they started and call Next again
FairSpec == Spec /\ WF_vars(Collector) /\ \A i \in Iters : WF_vars(Deliver(i) \/ Finish(i)) /\ WF_vars(NextStart(i))

-----------------------------------------------------------------------------
\* C07: a fully consumed Next leads exactly to the snapshot it was given
Inv_C07_Converge == \A i \in Iters : it[i].fin => it[i].rep = it[i].snap
\* C08 (retain): a deletion made after the iterator was created and not yet delivered to it is in the graveyard
Inv_C08_Retain ==
    \A i \in Registered : \A d \in ideal : d.r > it[i].born /\ d.r > it[i].drev => d \in grave
\* the graveyard holds no tombstone of a live object (a second delete would trip over it)
Inv_C08_NoTombstoneOfLive == \A g \in grave : live[g.k] = 0 \/ live[g.k] < g.r
\* the mark never runs ahead of what was delivered
Inv_C08_MarkBehind == \A i \in Registered : it[i].mark <= rev
\* C08 (drain): once nothing changes any more, every tombstone that no registered iterator still needs goes away
Needed == { g \in grave : \E i \in Registered : g.r > it[i].drev }
Live_C08_Drain == [](rev = MaxRev => <>(grave \subseteq Needed))
=============================================================================
