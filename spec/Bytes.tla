------------------------------- MODULE Bytes -------------------------------
(***************************************************************************)
(* Byte strings (and bit strings) as TLA+ sequences of naturals, with the  *)
(* bytewise lexicographic order used by every statedb index, prefix        *)
(* tests, and sorting of finite key sets.  JSON arrays of integers         *)
(* deserialize to exactly these sequences.                                 *)
(***************************************************************************)
EXTENDS Naturals, Sequences, FiniteSets

Min2(a, b) == IF a <= b THEN a ELSE b

\* a is a (not necessarily proper) prefix of b
IsPrefixOf(a, b) ==
    /\ Len(a) <= Len(b)
    /\ \A i \in 1..Len(a) : a[i] = b[i]

\* number of leading positions on which a and b agree
RECURSIVE CommonLen(_, _, _)
CommonLen(a, b, i) ==
    IF i < Len(a) /\ i < Len(b) /\ a[i+1] = b[i+1] THEN CommonLen(a, b, i+1) ELSE i

\* strict lexicographic order, a proper prefix sorts first
Less(a, b) ==
    LET c == CommonLen(a, b, 0) IN
    IF c = Len(a) THEN Len(b) > c
    ELSE IF c = Len(b) THEN FALSE
    ELSE a[c+1] < b[c+1]

LessEq(a, b) == a = b \/ Less(a, b)

\* sort a finite set of sequences ascending (selection sort; sets are small)
RECURSIVE SortKeys(_)
SortKeys(S) ==
    IF S = {} THEN << >>
    ELSE LET m == CHOOSE x \in S : \A y \in S : LessEq(x, y)
         IN  << m >> \o SortKeys(S \ {m})

Range(s) == { s[i] : i \in 1..Len(s) }

SeqPrefix(s, n) == SubSeq(s, 1, n)

\* all sequences over alphabet A of length <= n
RECURSIVE SeqsUpTo(_, _)
SeqsUpTo(A, n) ==
    IF n = 0 THEN { << >> }
    ELSE LET R == SeqsUpTo(A, n-1)
         IN  R \cup { Append(s, a) : s \in { r \in R : Len(r) = n-1 }, a \in A }

=============================================================================
