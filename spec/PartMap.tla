------------------------------ MODULE PartMap ------------------------------
(***************************************************************************)
(* part.Map / part.Set / part.MapTxn as persistent values (C17).  Every    *)
(* operation creates a new value id from older ones; older values never    *)
(* change.  Maps are strictly ascending sequences of <<key, value>>, sets  *)
(* strictly ascending sequences of keys (bytewise order).  The empty /     *)
(* singleton / tree representations of the implementation are deliberately *)
(* not part of the specification.                                          *)
(***************************************************************************)
EXTENDS Bytes, TLC, Integers

CONSTANTS Keys, Vals, MaxVal, MaxTxn, MaxOps

VARIABLES val, mtx, res, nops
vars == << val, mtx, res, nops >>

Pos(m, k)   == Cardinality({ i \in 1..Len(m) : Less(m[i][1], k) }) + 1
Has(m, k)   == LET p == Pos(m, k) IN p <= Len(m) /\ m[p][1] = k
ValOf(m, k) == m[Pos(m, k)][2]
Put(m, k, v) ==
    LET p == Pos(m, k) IN
    IF p <= Len(m) /\ m[p][1] = k THEN [m EXCEPT ![p] = << k, v >>]
    ELSE SubSeq(m, 1, p - 1) \o << << k, v >> >> \o SubSeq(m, p, Len(m))
Del(m, k) ==
    LET p == Pos(m, k) IN
    IF p <= Len(m) /\ m[p][1] = k THEN SubSeq(m, 1, p - 1) \o SubSeq(m, p + 1, Len(m)) ELSE m
RECURSIVE PutAll(_, _)
PutAll(m, kvs) == IF kvs = << >> THEN m ELSE PutAll(Put(m, Head(kvs)[1], Head(kvs)[2]), Tail(kvs))

\* sets: sequences of <<key>> one-tuples so that the map operators apply
SPos(s, k)  == Cardinality({ i \in 1..Len(s) : Less(s[i], k) }) + 1
SHas(s, k)  == LET p == SPos(s, k) IN p <= Len(s) /\ s[p] = k
SPut(s, k)  == LET p == SPos(s, k) IN IF p <= Len(s) /\ s[p] = k THEN s
               ELSE SubSeq(s, 1, p - 1) \o << k >> \o SubSeq(s, p, Len(s))
SDel(s, k)  == LET p == SPos(s, k) IN IF p <= Len(s) /\ s[p] = k
               THEN SubSeq(s, 1, p - 1) \o SubSeq(s, p + 1, Len(s)) ELSE s
RECURSIVE SPutAll(_, _)
SPutAll(s, ks) == IF ks = << >> THEN s ELSE SPutAll(SPut(s, Head(ks)), Tail(ks))
SUnion(a, b) == SPutAll(a, b)
SDiff(a, b)  == SelectSeq(a, LAMBDA k : ~SHas(b, k))

Take(s, n) == IF n < 0 \/ n >= Len(s) THEN s ELSE SubSeq(s, 1, n)
KeysOf(m) == [i \in 1..Len(m) |-> m[i][1]]

Init == val = << >> /\ mtx = << >> /\ res = [op |-> "none"] /\ nops = 0

IsMap(i) == i \in DOMAIN val /\ val[i].kind = "map"
IsSet(i) == i \in DOMAIN val /\ val[i].kind = "set"
NewVal(j, kind, m) == j \notin DOMAIN val /\ val' = (j :> [kind |-> kind, m |-> m]) @@ val

\* ------------------------------------------------------------------ Map
MNew(j) == NewVal(j, "map", << >>) /\ res' = [op |-> "mnew", j |-> j] /\ UNCHANGED mtx
MSet(i, k, v, j) ==
    /\ IsMap(i) /\ NewVal(j, "map", Put(val[i].m, k, v))
    /\ res' = [op |-> "mset", i |-> i, k |-> k, v |-> v, j |-> j] /\ UNCHANGED mtx
MDelete(i, k, j) ==
    /\ IsMap(i) /\ NewVal(j, "map", Del(val[i].m, k))
    /\ res' = [op |-> "mdelete", i |-> i, k |-> k, j |-> j] /\ UNCHANGED mtx
\* FromMap: the entries of the hash map win over the entries of the base map
MFrom(i, kvs, j) ==
    /\ IsMap(i) /\ NewVal(j, "map", PutAll(val[i].m, kvs))
    /\ res' = [op |-> "mfrom", i |-> i, kvs |-> kvs, j |-> j] /\ UNCHANGED mtx
MGet(i, k) ==
    /\ IsMap(i)
    /\ LET m == val[i].m f == Has(m, k) IN
       res' = [op |-> "mget", i |-> i, k |-> k, found |-> f, val |-> IF f THEN ValOf(m, k) ELSE 0]
    /\ UNCHANGED << val, mtx >>
MLen(i) == IsMap(i) /\ res' = [op |-> "mlen", i |-> i, n |-> Len(val[i].m)] /\ UNCHANGED << val, mtx >>
MAll(i, take) ==
    IsMap(i) /\ res' = [op |-> "mall", i |-> i, take |-> take, items |-> Take(val[i].m, take)] /\ UNCHANGED << val, mtx >>
MPrefix(i, p) ==
    /\ IsMap(i)
    /\ res' = [op |-> "mprefix", i |-> i, k |-> p, items |-> SelectSeq(val[i].m, LAMBDA e : IsPrefixOf(p, e[1]))]
    /\ UNCHANGED << val, mtx >>
MLower(i, k) ==
    /\ IsMap(i)
    /\ res' = [op |-> "mlower", i |-> i, k |-> k, items |-> SubSeq(val[i].m, Pos(val[i].m, k), Len(val[i].m))]
    /\ UNCHANGED << val, mtx >>
MEq(i, j, what) ==
    /\ IsMap(i) /\ IsMap(j)
    /\ res' = [op |-> what, i |-> i, j |-> j,
               eq |-> IF what = "meqkeys" THEN KeysOf(val[i].m) = KeysOf(val[j].m) ELSE val[i].m = val[j].m]
    /\ UNCHANGED << val, mtx >>
\* encode + decode (JSON or YAML) yields an equal value
MRound(i, j, what) ==
    /\ IsMap(i) /\ NewVal(j, "map", val[i].m)
    /\ res' = [op |-> what, i |-> i, j |-> j, eq |-> TRUE] /\ UNCHANGED mtx

\* ------------------------------------------------------------ MapTxn
TOpen(x) == x \in DOMAIN mtx
MTxn(i, x) ==
    /\ IsMap(i) /\ x \notin DOMAIN mtx
    /\ mtx' = (x :> val[i].m) @@ mtx
    /\ res' = [op |-> "mtxn", i |-> i, x |-> x] /\ UNCHANGED val
TSet(x, k, v) == TOpen(x) /\ mtx' = [mtx EXCEPT ![x] = Put(@, k, v)]
                 /\ res' = [op |-> "tset", x |-> x, k |-> k, v |-> v] /\ UNCHANGED val
TDel(x, k) == TOpen(x) /\ mtx' = [mtx EXCEPT ![x] = Del(@, k)]
              /\ res' = [op |-> "tdel", x |-> x, k |-> k, found |-> Has(mtx[x], k)] /\ UNCHANGED val
TGet(x, k) == /\ TOpen(x)
              /\ LET f == Has(mtx[x], k) IN
                 res' = [op |-> "tget", x |-> x, k |-> k, found |-> f, val |-> IF f THEN ValOf(mtx[x], k) ELSE 0]
              /\ UNCHANGED << val, mtx >>
TLen(x) == TOpen(x) /\ res' = [op |-> "tlen", x |-> x, n |-> Len(mtx[x])] /\ UNCHANGED << val, mtx >>
TAll(x) == TOpen(x) /\ res' = [op |-> "tall", x |-> x, items |-> mtx[x]] /\ UNCHANGED << val, mtx >>
TPrefix(x, p) == TOpen(x) /\ res' = [op |-> "tprefix", x |-> x, k |-> p,
                                     items |-> SelectSeq(mtx[x], LAMBDA e : IsPrefixOf(p, e[1]))]
                 /\ UNCHANGED << val, mtx >>
TLower(x, k) == TOpen(x) /\ res' = [op |-> "tlower", x |-> x, k |-> k,
                                    items |-> SubSeq(mtx[x], Pos(mtx[x], k), Len(mtx[x]))]
                /\ UNCHANGED << val, mtx >>
\* "The transaction can be used again for further modifications"
TCommit(x, j) == TOpen(x) /\ NewVal(j, "map", mtx[x])
                 /\ res' = [op |-> "tcommit", x |-> x, j |-> j] /\ UNCHANGED mtx

\* ------------------------------------------------------------------ Set
SNew(vs, j) == NewVal(j, "set", SPutAll(<< >>, vs)) /\ res' = [op |-> "snew", vs |-> vs, j |-> j] /\ UNCHANGED mtx
SSet(i, k, j) == IsSet(i) /\ NewVal(j, "set", SPut(val[i].m, k))
                 /\ res' = [op |-> "sset", i |-> i, k |-> k, j |-> j] /\ UNCHANGED mtx
SDelete(i, k, j) == IsSet(i) /\ NewVal(j, "set", SDel(val[i].m, k))
                    /\ res' = [op |-> "sdelete", i |-> i, k |-> k, j |-> j] /\ UNCHANGED mtx
SHasOp(i, k) == IsSet(i) /\ res' = [op |-> "shas", i |-> i, k |-> k, found |-> SHas(val[i].m, k)] /\ UNCHANGED << val, mtx >>
SLen(i) == IsSet(i) /\ res' = [op |-> "slen", i |-> i, n |-> Len(val[i].m)] /\ UNCHANGED << val, mtx >>
SAll(i, take) == IsSet(i) /\ res' = [op |-> "sall", i |-> i, take |-> take, items |-> Take(val[i].m, take)]
                 /\ UNCHANGED << val, mtx >>
SBin(i, i2, j, what) ==
    /\ IsSet(i) /\ IsSet(i2)
    /\ NewVal(j, "set", IF what = "sunion" THEN SUnion(val[i].m, val[i2].m) ELSE SDiff(val[i].m, val[i2].m))
    /\ res' = [op |-> what, i |-> i, i2 |-> i2, j |-> j] /\ UNCHANGED mtx
SEq(i, i2) == IsSet(i) /\ IsSet(i2) /\ res' = [op |-> "sequal", i |-> i, i2 |-> i2, eq |-> val[i].m = val[i2].m]
              /\ UNCHANGED << val, mtx >>
SRound(i, j, what) == IsSet(i) /\ NewVal(j, "set", val[i].m)
                      /\ res' = [op |-> what, i |-> i, j |-> j, eq |-> TRUE] /\ UNCHANGED mtx

-----------------------------------------------------------------------------
SortedM(m) == \A i \in 1..(Len(m) - 1) : Less(m[i][1], m[i + 1][1])
SortedS(s) == \A i \in 1..(Len(s) - 1) : Less(s[i], s[i + 1])
Inv_C17_Sorted == \A i \in DOMAIN val : IF val[i].kind = "map" THEN SortedM(val[i].m) ELSE SortedS(val[i].m)
Act_C17_Persistent == \A i \in DOMAIN val : val'[i] = val[i]
Prop_C17_Persistent == [][Act_C17_Persistent]_vars
\* algebra of sets on the model
Inv_C17_SetAlgebra ==
    res.op \in {"sunion", "sdiff"} =>
        LET a == Range(val[res.i].m) b == Range(val[res.i2].m) c == Range(val[res.j].m) IN
        IF res.op = "sunion" THEN c = a \cup b ELSE c = a \ b

Fresh(D, max) == IF Cardinality(D) < max THEN { Cardinality(D) + 1 } ELSE {}
Maps == { i \in DOMAIN val : val[i].kind = "map" }
Sets == { i \in DOMAIN val : val[i].kind = "set" }
Step ==
    \/ \E j \in Fresh(DOMAIN val, MaxVal) : (val = << >> /\ MNew(j)) \/ \E k \in Keys : SNew(<< k >>, j)
    \/ \E i \in Maps, k \in Keys, v \in Vals, j \in Fresh(DOMAIN val, MaxVal) : MSet(i, k, v, j)
    \/ \E i \in Maps, k \in Keys, j \in Fresh(DOMAIN val, MaxVal) : MDelete(i, k, j)
    \/ \E i \in Maps, k \in Keys, k2 \in Keys, j \in Fresh(DOMAIN val, MaxVal) :
          k # k2 /\ MFrom(i, << << k, 2 >>, << k2, 2 >> >>, j)
    \/ \E i \in Maps, k \in Keys : MGet(i, k) \/ MPrefix(i, k) \/ MLower(i, k)
    \/ \E i \in Maps : MLen(i) \/ MAll(i, 0 - 1)
    \/ \E i \in Maps, j \in Maps : MEq(i, j, "meqkeys") \/ MEq(i, j, "mslow")
    \/ \E i \in Maps, j \in Fresh(DOMAIN val, MaxVal) : MRound(i, j, "mjson")
    \/ \E i \in Maps, x \in Fresh(DOMAIN mtx, MaxTxn) : MTxn(i, x)
    \/ \E x \in DOMAIN mtx, k \in Keys, v \in Vals : TSet(x, k, v)
    \/ \E x \in DOMAIN mtx, k \in Keys : TDel(x, k) \/ TGet(x, k)
    \/ \E x \in DOMAIN mtx : TLen(x) \/ TAll(x)
    \/ \E x \in DOMAIN mtx, j \in Fresh(DOMAIN val, MaxVal) : TCommit(x, j)
    \/ \E i \in Sets, k \in Keys, j \in Fresh(DOMAIN val, MaxVal) : SSet(i, k, j) \/ SDelete(i, k, j)
    \/ \E i \in Sets, k \in Keys : SHasOp(i, k)
    \/ \E i \in Sets : SLen(i) \/ SAll(i, 1) \/ SAll(i, 0 - 1)
    \/ \E i \in Sets, i2 \in Sets, j \in Fresh(DOMAIN val, MaxVal) : SBin(i, i2, j, "sunion") \/ SBin(i, i2, j, "sdiff")
    \/ \E i \in Sets, i2 \in Sets : SEq(i, i2)

Next == nops < MaxOps /\ Step /\ nops' = nops + 1
Spec == Init /\ [][Next]_vars
View == << val, mtx >>
=============================================================================
