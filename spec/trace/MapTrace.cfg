SPECIFICATION TSpec
CONSTANTS
  Keys = {}
  Vals = {}
  MaxVal = 0
  MaxTxn = 0
  MaxOps = 0
CHECK_DEADLOCK FALSE
