----------------------------- MODULE PartTrace -----------------------------
(***************************************************************************)
(* Trace specification for drv_part: every line of the log of the real     *)
(* part.Tree is explained by the PartTree action of the same name, called  *)
(* with the logged arguments; the reply predicted by the specification     *)
(* (res') is compared with the logged reply, and the channel observations  *)
(* are judged by the C12 invariants.  Each trace of the log is a separate  *)
(* initial state; the first violated invariant of a trace is kept in viol  *)
(* and printed as a VERDICT line at the end of the trace.                  *)
(***************************************************************************)
EXTENDS PartTree, Json, IOUtils

Trace  == ndJsonDeserialize(IOEnv.VERIF_TRACE)
Bounds == ndJsonDeserialize(IOEnv.VERIF_BOUNDS)

VARIABLES tr, l, viol

tvars == << vars, tr, l, viol >>

NoViol == [l |-> 0, inv |-> "ok", exp |-> ""]

TInit ==
    /\ Init
    /\ \E t \in 1..Len(Bounds) : tr = t /\ l = Bounds[t].s
    /\ viol = NoViol

\* channel observation: the harness reports which tracked channels are closed
Observe(S) ==
    /\ chan' = [ c \in DOMAIN chan |-> [chan[c] EXCEPT !.closed = (c \in S)] ]
    /\ res' = [op |-> "chans"]
    /\ UNCHANGED << tree, txn, iter, head >>

\* a panic ends the trace; it is a violation of the property of the running op
Panic == UNCHANGED vars

Apply(e) ==
    \/ e.op = "new"          /\ New(e.t, e.ro)
    \/ e.op = "begin"        /\ Begin(e.x, e.t, e.lin)
    \/ e.op = "insert"       /\ Insert(e.x, e.k, e.v, e.w)
    \/ e.op = "modify"       /\ Modify(e.x, e.k, e.v, e.w)
    \/ e.op = "delete"       /\ Delete(e.x, e.k)
    \/ e.op = "get"          /\ Get(e.s, e.k, e.w)
    \/ e.op = "len"          /\ LenOf(e.s)
    \/ e.op = "rootwatch"    /\ RootWatch(e.s, e.w)
    \/ e.op = "prefix"       /\ Prefix(e.s, e.k, e.f, e.w)
    \/ e.op = "lowerbound"   /\ LowerBound(e.s, e.k, e.f)
    \/ e.op = "iterator"     /\ Iterate(e.s, e.f)
    \/ e.op = "all"          /\ AllOf(e.s)
    \/ e.op = "allw"         /\ AllW(e.x, e.at, e.kind, e.k, e.v)
    \/ e.op = "next"         /\ IterNext(e.f)
    \/ e.op = "iterall"      /\ IterAll(e.f)
    \/ e.op = "clone"        /\ Clone(e.x, e.t)
    \/ e.op = "commit"       /\ Commit(e.x, e.t)
    \/ e.op = "notify"       /\ Notify(e.x, {})
    \/ e.op = "commitnotify" /\ CommitAndNotify(e.x, e.t, {})
    \/ e.op = "abandon"      /\ Abandon(e.x)
    \/ e.op = "chans"        /\ Observe(Range(e.closed))
    \/ e.op \in {"panic", "nop"} /\ Panic

\* name of the first invariant that the step to the primed state violates
HasItems == {"prefix", "lowerbound", "iterator", "all", "iterall"}
AllWBad(e) == e.op = "allw" /\ e.items # res'.items
Bad(e) ==
    CASE e.op = "panic" -> IF e.during \in {"notify", "commitnotify", "chans", "rootwatch"}
                           THEN "C12_NoPanic" ELSE "C11_NoPanic"
      [] e.op \in {"insert", "delete"} /\ (e.had # res'.had \/ (e.had /\ e.old # res'.old))
            -> "C11_Result_Old"
      [] e.op = "modify" /\ (e.had # res'.had \/ (e.had /\ e.old # res'.old) \/ e.new # res'.new)
            -> "C11_Result_Old"
      [] e.op = "get" /\ (e.found # res'.found \/ (e.found /\ e.val # res'.val))
            -> IF IsTree(e.s) /\ e.s.id # head THEN "C11_Persistent_Get" ELSE "C11_Result_Get"
      [] e.op = "len" /\ e.n # res'.n -> "C11_Result_Len"
      [] AllWBad(e) -> "C11_Result_AllWhileWriting"
      [] e.op \in HasItems /\ e.items # res'.items
            -> IF e.op = "iterall" \/ (IsTree(e.s) /\ e.s.id # head)
               THEN "C11_Persistent_Items" ELSE "C11_Result_Items"
      [] e.op = "next" /\ (e.ok # res'.ok \/ (e.ok /\ e.item # res'.item)) -> "C11_Persistent_Next"
      [] e.op \in {"insert", "modify", "get", "prefix", "rootwatch"} /\ e.w # 0 /\ e.wc /\ ~chan'[e.w].may
            -> "C12_Never_ClosedAtHandout"
      [] e.op = "chans" /\ \E c \in DOMAIN chan' : chan'[c].must /\ ~chan'[c].closed
            -> "C12_Must"
      [] e.op = "chans" /\ \E c \in DOMAIN chan' :
               chan'[c].kind = "root" /\ chan'[c].closed /\ ~chan'[c].may
            -> "C12_RootExact"
      [] e.op = "chans" /\ \E c \in DOMAIN chan' : chan'[c].closed /\ ~chan'[c].may
            -> "C12_Never"
      [] OTHER -> "ok"

TStep ==
    /\ l <= Bounds[tr].e
    /\ LET e == Trace[l] IN
       /\ Apply(e)
       /\ viol' = IF viol.inv # "ok" THEN viol
                  ELSE LET b == Bad(e) IN IF b = "ok" THEN viol ELSE [l |-> l, inv |-> b, exp |-> ToString(res')]
    /\ l' = l + 1 /\ tr' = tr /\ nops' = nops

\* end of trace: report
TDone ==
    /\ l = Bounds[tr].e + 1
    /\ PrintT(<< "VERDICT", Bounds[tr].id, viol.l, viol.inv, viol.exp >>)
    /\ l' = l + 1
    /\ UNCHANGED << vars, tr, viol >>

TNext == TStep \/ TDone

TSpec == TInit /\ [][TNext]_tvars
=============================================================================
