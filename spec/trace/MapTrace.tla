------------------------------ MODULE MapTrace ------------------------------
(* Trace specification for drv_map (part.Map, part.MapTxn, part.Set; C17). *)
EXTENDS PartMap, Json, IOUtils

Trace  == ndJsonDeserialize(IOEnv.VERIF_TRACE)
Bounds == ndJsonDeserialize(IOEnv.VERIF_BOUNDS)

VARIABLES tr, l, viol
tvars == << vars, tr, l, viol >>
NoViol == [l |-> 0, inv |-> "ok", exp |-> ""]

TInit ==
    /\ Init
    /\ \E t \in 1..Len(Bounds) : tr = t /\ l = Bounds[t].s
    /\ viol = NoViol

Apply(e) ==
    \/ e.op = "mnew"    /\ MNew(e.j)
    \/ e.op = "mset"    /\ MSet(e.i, e.k, e.v, e.j)
    \/ e.op = "mdelete" /\ MDelete(e.i, e.k, e.j)
    \/ e.op = "mfrom"   /\ MFrom(e.i, e.kvs, e.j)
    \/ e.op = "mget"    /\ MGet(e.i, e.k)
    \/ e.op = "mlen"    /\ MLen(e.i)
    \/ e.op = "mall"    /\ MAll(e.i, e.take)
    \/ e.op = "mprefix" /\ MPrefix(e.i, e.k)
    \/ e.op = "mlower"  /\ MLower(e.i, e.k)
    \/ e.op \in {"meqkeys", "mslow"} /\ MEq(e.i, e.j, e.op)
    \/ e.op \in {"mjson", "myaml"}   /\ MRound(e.i, e.j, e.op)
    \/ e.op = "mtxn"    /\ MTxn(e.i, e.x)
    \/ e.op = "tset"    /\ TSet(e.x, e.k, e.v)
    \/ e.op = "tdel"    /\ TDel(e.x, e.k)
    \/ e.op = "tget"    /\ TGet(e.x, e.k)
    \/ e.op = "tlen"    /\ TLen(e.x)
    \/ e.op = "tall"    /\ TAll(e.x)
    \/ e.op = "tprefix" /\ TPrefix(e.x, e.k)
    \/ e.op = "tlower"  /\ TLower(e.x, e.k)
    \/ e.op = "tcommit" /\ TCommit(e.x, e.j)
    \/ e.op = "snew"    /\ SNew(e.vs, e.j)
    \/ e.op = "sset"    /\ SSet(e.i, e.k, e.j)
    \/ e.op = "sdelete" /\ SDelete(e.i, e.k, e.j)
    \/ e.op = "shas"    /\ SHasOp(e.i, e.k)
    \/ e.op = "slen"    /\ SLen(e.i)
    \/ e.op = "sall"    /\ SAll(e.i, e.take)
    \/ e.op \in {"sunion", "sdiff"} /\ SBin(e.i, e.i2, e.j, e.op)
    \/ e.op = "sequal"  /\ SEq(e.i, e.i2)
    \/ e.op \in {"sjson", "syaml"} /\ SRound(e.i, e.j, e.op)
    \/ e.op \in {"panic", "nop"} /\ UNCHANGED vars

\* is the value queried an older one (a newer value has been derived since)?
Old(i) == \E j \in DOMAIN val : j > i

Bad(e) ==
    CASE e.op = "panic" -> "C17_NoPanic"
      [] e.op \in {"mget", "tget"} /\ (e.found # res'.found \/ (e.found /\ e.val # res'.val))
            -> IF e.op = "mget" /\ Old(e.i) THEN "C17_Persistent" ELSE "C17_Get"
      [] e.op \in {"shas", "tdel"} /\ e.found # res'.found -> IF e.op = "shas" /\ Old(e.i) THEN "C17_Persistent" ELSE "C17_Has"
      [] e.op \in {"mlen", "slen", "tlen"} /\ e.n # res'.n -> "C17_Len"
      [] e.op \in {"mall", "mprefix", "mlower", "sall"} /\ e.items # res'.items
            -> IF Old(e.i) THEN "C17_Persistent" ELSE "C17_Items"
      [] e.op \in {"tall", "tprefix", "tlower"} /\ e.items # res'.items -> "C17_TxnItems"
      [] e.op \in {"meqkeys", "mslow", "sequal"} /\ e.eq # res'.eq -> "C17_Equality"
      [] e.op \in {"mjson", "myaml", "sjson", "syaml"} /\ ~e.eq -> "C17_RoundTrip"
      [] OTHER -> "ok"

TStep ==
    /\ l <= Bounds[tr].e
    /\ LET e == Trace[l] IN
       /\ Apply(e)
       /\ viol' = IF viol.inv # "ok" THEN viol
                  ELSE LET b == Bad(e) IN IF b = "ok" THEN viol ELSE [l |-> l, inv |-> b, exp |-> ToString(res')]
    /\ l' = l + 1 /\ tr' = tr /\ nops' = nops

TDone ==
    /\ l = Bounds[tr].e + 1
    /\ PrintT(<< "VERDICT", Bounds[tr].id, viol.l, viol.inv, viol.exp >>)
    /\ l' = l + 1
    /\ UNCHANGED << vars, tr, viol >>

TNext == TStep \/ TDone
TSpec == TInit /\ [][TNext]_tvars
=============================================================================
