SPECIFICATION TSpec
CONSTANTS
  Prefixes = {}
  Queries = {}
  Vals = {}
  MaxTrie = 0
  MaxTxn = 0
  MaxIter = 0
  MaxOps = 0
CHECK_DEADLOCK FALSE
