---------------------------- MODULE RecAlgTrace ----------------------------
(***************************************************************************)
(* Refinement check of the reconciler against its ALGORITHM model: a log   *)
(* of the real reconciler (drv_rec) is accepted iff it is a behaviour of   *)
(* Reconciler.tla.  Logged steps are bound to the model's actions with     *)
(* their arguments (user writes at their commit, Update/Delete calls with  *)
(* key, version, revision and outcome, status commits with the complete    *)
(* table they leave behind); what the log does not show -- the start of a  *)
(* round, skipped objects, the end of the two processing phases, status    *)
(* commits that wrote nothing, the passing of time -- is inferred by TLC   *)
(* (silent steps).  RecTrace.tla judges the properties; this module judges *)
(* whether the design-level results obtained on Reconciler.tla (R1) are    *)
(* about this code at all.  A log that is not accepted is reported as      *)
(* model drift, never as a violation of a property.                        *)
(* Scope: single and batch operations, refresh loop, pruning (a no-op for   *)
(* the table); time is abstract (Tick is silent and unconstrained by the   *)
(* logged clock).                                                          *)
(***************************************************************************)
EXTENDS Reconciler, Json, IOUtils

Trace  == ndJsonDeserialize(IOEnv.VERIF_TRACE)
Bounds == ndJsonDeserialize(IOEnv.VERIF_BOUNDS)

VARIABLES tr, l, rs, bm      \* log, position, and the configuration of the log: round size, batch mode
tvars == << tr, l, rs, bm, vars >>

Range(s) == { s[i] : i \in 1..Len(s) }
KindOf(st) == CASE st = "P" -> "Pending" [] st = "D" -> "Done" [] st = "E" -> "Error" [] OTHER -> "Refreshing"
RowsOf(o) == { << k, o[k].ver, KindOf(o[k].st), o[k].rev >> : k \in { x \in Keys : o[x].live } }
RowsIn(e) == { << r[1], r[2], r[3], r[4] >> : r \in Range(e) }
Max2(a, b) == IF a >= b THEN a ELSE b

TInit ==
    /\ Init
    /\ \E t \in 1..Len(Bounds) : tr = t /\ l = Bounds[t].s /\ TLCSet(t, Bounds[t].s)
    /\ rs = 1 /\ bm = FALSE

\* ------------------------------------------------------------ logged steps
\* UserDelete(k) \cdot UserUpsertV(k, v), written out (TLC has no action composition)
DeleteThenUpsert(k, v) ==
    /\ obj' = [obj EXCEPT ![k] = [live |-> TRUE, ver |-> v, st |-> "P", sid |-> nsid + 1, rev |-> trev + 2, other |-> 0]]
    /\ del' = [del EXCEPT ![k] = 0]
    /\ trev' = trev + 2 /\ nsid' = nsid + 1 /\ nchg' = nchg + 2
    /\ UNCHANGED << cur, phase, snap, results, retry, target, nproc, nfail, noth, nref, prog, attempted, first >>

UserCommit(e) ==
    /\ CASE e.ukind = "upsert"   -> UserUpsertV(e.uk, e.uver)
         [] e.ukind = "delete"   -> UserDelete(e.uk)
         [] e.ukind = "status2"  -> OtherWrite(e.uk)
         \* delete + insert in one transaction: two steps of the model
         [] e.ukind = "reinsert" -> IF obj[e.uk].live THEN DeleteThenUpsert(e.uk, e.uver)
                                    ELSE UserUpsertV(e.uk, e.uver)
         [] OTHER -> FALSE
    /\ trev' = e.rev
    /\ RowsOf(obj') = RowsIn(e.all)

\* the refresh loop (a goroutine of its own) marks one Done object per write transaction
IsRefresh(e) == Len(e.changes) = 1 /\ e.changes[1].kind = "Refreshing"
RecCommit(e) ==
    /\ IF IsRefresh(e) THEN RefreshMark(e.changes[1].k)
       ELSE \E ord \in Orders(DOMAIN results) : CommitStatusO(ord)
    /\ trev' = e.rev
    /\ RowsOf(obj') = RowsIn(e.all)

Call(e) ==
    LET isdel == e.kind = "delete" IN
    \/ /\ e.kind # "prune" /\ e.batch
       /\ isdel \/ snap.obj[e.k].ver = e.ver
       /\ BatchOp(<< e.k, e.rev, isdel >>, ~e.fail)
    \/ /\ e.kind # "prune" /\ ~e.batch /\ ~bm /\ phase = "changes" /\ Pending(snap, cur) # {}
       /\ NextChange = << e.k, e.rev, isdel >>
       /\ isdel \/ snap.obj[e.k].ver = e.ver
       /\ ChangeOp(rs, ~e.fail)
    \* (Prune does not touch the table)
    \/ e.kind = "prune" /\ UNCHANGED vars
    \/ /\ e.kind # "prune" /\ ~e.batch /\ phase = "retries" /\ e.k \in DOMAIN retry
       /\ retry[e.k].isdel = isdel /\ retry[e.k].rev = e.rev
       /\ isdel \/ retry[e.k].ver = e.ver
       /\ RetryOp(rs, e.k, ~e.fail)

\* at quiescence (every goroutine blocked) the reconciler is between rounds -- possibly with work pending, waiting for
\* its rate limiter: the refresh loop may just have marked an object -- and table and target are the model's
Quiesce(e) ==
    /\ phase = "idle"
    /\ RowsOf(obj) = RowsIn(e.table)
    /\ { << e.target[i][1], e.target[i][2] >> : i \in 1..Len(e.target) } = { << k, target[k] >> : k \in DOMAIN target }
    /\ UNCHANGED vars

\* a quiescent WaitUntilReconciled returns the progress the last round published
WaitRet(e) ==
    /\ (e.q /\ e.err = "") => (phase = "idle" /\ e.ret = prog.rev /\ e.lw = prog.lw)
    /\ UNCHANGED vars

Logged ==
    /\ l <= Bounds[tr].e
    /\ LET e == Trace[l] IN
       /\ CASE e.op = "config"  -> rs' = e.round /\ bm' = e.batch /\ UNCHANGED vars
            [] e.op = "commit"  -> UNCHANGED << rs, bm >> /\ (IF e.by = "user" THEN UserCommit(e) ELSE RecCommit(e))
            [] e.op = "call"    -> UNCHANGED << rs, bm >> /\ Call(e)
            [] e.op = "quiesce" -> UNCHANGED << rs, bm >> /\ Quiesce(e)
            [] e.op = "waitret" -> UNCHANGED << rs, bm >> /\ WaitRet(e)
            [] OTHER            -> UNCHANGED << rs, bm, vars >>
    /\ l' = l + 1 /\ tr' = tr
    /\ TLCSet(tr, Max2(TLCGet(tr), l + 1))

\* ------------------------------------------------------------ silent steps
RetriesEndAny ==
    /\ phase = "retries" /\ phase' = "commit2"
    /\ UNCHANGED << obj, del, trev, nsid, cur, snap, nchg, noth, nref, prog, first, results, retry, target, nproc, nfail, attempted >>

Silent ==
    /\ l <= Bounds[tr].e
    /\ \/ RoundStart
       \/ ChangesEnd(rs)
       \/ ~bm /\ ChangeSkip(rs)
       \/ bm /\ (BatchCollect(rs) \/ BatchEnd)
       \* (time is abstract here: whether a queued retry is due at the moment of a round is decided by the real clock,
       \* which the coarse Tick of the model does not follow; the pacing itself is judged by RecTrace.tla)
       \/ RetriesEndAny
       \* a status commit that wrote nothing (no results, or every result stale) leaves no commit in the log
       \/ (\E ord \in Orders(DOMAIN results) : CommitStatusO(ord)) /\ obj' = obj
       \/ Tick
    /\ UNCHANGED << tr, l, rs, bm >>

TDone ==
    /\ l = Bounds[tr].e + 1
    /\ PrintT(<< "VERDICT", Bounds[tr].id, 0, "ok", "" >>)
    /\ l' = l + 1
    /\ UNCHANGED << tr, rs, bm, vars >>

TNext == Logged \/ Silent \/ TDone
TSpec == TInit /\ [][TNext]_tvars

\* how far each log was matched (a log matched to its end has a VERDICT line as well)
Report ==
    \A t \in 1..Len(Bounds) : PrintT(<< "HW", Bounds[t].id, TLCGet(t), Bounds[t].e + 1 >>)
=============================================================================
