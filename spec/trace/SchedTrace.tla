----------------------------- MODULE SchedTrace -----------------------------
(***************************************************************************)
(* Trace specification for drv_sched (deterministic schedule replay).      *)
(* API calls of the actors are the DB.tla actions of DBTrace.tla; the      *)
(* additional "step" events carry, after every protocol step of every      *)
(* goroutine, a probe of the committed state as a new reader sees it, the  *)
(* channel bits and which goroutines are blocked.  The probe decides where *)
(* the single Publish step of a committing transaction happened: it must   *)
(* equal the current abstract root or the root after publishing exactly    *)
(* one open transaction (C02, C05); blocked goroutines must be explained   *)
(* by a transaction sharing a table (C10); channels may be closed only     *)
(* once a newer revision is visible (C06), init channels only once an      *)
(* initialized state is visible (C19).                                     *)
(***************************************************************************)
EXTENDS DBTrace

\* gct: the tables the collector may lock in its current pass (fixed when its lock-free scan ended);
\* gcfresh: the scan may also have seen the publish that the next step event reports
VARIABLES gct, gcfresh

\* ---------------------------------------------------------------- probes
TabEq(pt, ts) ==
    /\ pt.rev = ts.rev
    /\ pt.rows = Rows(ts.objs)
    /\ pt.num = Len(ts.objs)
    /\ pt.init = (ts.pend = << >>)
    /\ Range(pt.pend) = Range(ts.pend)

ProbeEq(P, r) ==
    /\ P.ntables = Cardinality(DOMAIN r)
    /\ \A i \in 1..Len(P.tables) : P.tables[i].t \in DOMAIN r /\ TabEq(P.tables[i], r[P.tables[i].t])

\* every table of the probe equals that of r1 or that of r2 (a mixture = partial visibility)
ProbeMix(P, r1, r2) ==
    /\ P.ntables = Cardinality(DOMAIN r1)
    /\ \A i \in 1..Len(P.tables) :
          /\ P.tables[i].t \in DOMAIN r1
          /\ TabEq(P.tables[i], r1[P.tables[i].t]) \/ TabEq(P.tables[i], r2[P.tables[i].t])

OpenTx == { x \in DOMAIN wtx : WOpen(x) }
Pubs(P) == { x \in OpenTx : ProbeEq(P, After(x)) }

\* probe shows exactly one more (empty) table than registered
ShowsNewTable(P) ==
    /\ P.ntables = Cardinality(Tables) + 1
    /\ \A i \in 1..Len(P.tables) :
          IF P.tables[i].t \in Tables THEN TabEq(P.tables[i], root[P.tables[i].t])
          ELSE P.tables[i].t = Cardinality(Tables) /\ TabEq(P.tables[i], EmptyTable)

ObserveOn(ch, C) == [ c \in DOMAIN ch |-> [ch[c] EXCEPT !.closed = (c \in C)] ]

\* the transaction whose new root this very step stored (the actor went from commit.rootbuilt to commit.stored):
\* a commit that changes nothing a probe can see (no write, a tracker registered at most) is published here
StoredBy(e) ==
    IF e.call = "commit" /\ e.from = "commit.rootbuilt"
    THEN { r.tx : r \in { q \in Range(e.life) : q.actor = e.actor /\ q.call = "commit" } } \cap OpenTx
    ELSE {}

StepEv(e) ==
    LET P == e.probe
        C == Range(e.closed) IN
    /\ C \subseteq DOMAIN chan
    /\ IF (ProbeEq(P, root) \/ ~e.probeok) /\ ~\E x \in StoredBy(e) : ProbeEq(P, After(x))
       THEN /\ chan' = ObserveOn(chan, C)
            /\ res' = [op |-> "step", what |-> "same"]
            /\ UNCHANGED << root, wtx, snap, iter >>
       ELSE IF Pubs(P) # {}
       THEN LET x == IF \E y \in StoredBy(e) : ProbeEq(P, After(y)) THEN CHOOSE y \in StoredBy(e) : ProbeEq(P, After(y))
                     ELSE CHOOSE y \in Pubs(P) : TRUE IN
            /\ root' = After(x)
            /\ chan' = ObserveOn(AfterPublish(x, wtx[x].work), C)
            /\ iter' = [i \in DOMAIN iter |-> IF iter[i].tx = x /\ iter[i].st = "pending"
                                               THEN [iter[i] EXCEPT !.st = "open"] ELSE iter[i]]
            /\ wtx' = [wtx EXCEPT ![x].st = "published", ![x].pub = After(x)]
            /\ res' = [op |-> "step", what |-> "publish", tx |-> x, rejected |-> wtx[x].rej]
            /\ UNCHANGED snap
       ELSE IF ShowsNewTable(P)
       THEN /\ root' = (Cardinality(Tables) :> EmptyTable) @@ root
            /\ chan' = ObserveOn(chan, C)
            /\ res' = [op |-> "step", what |-> "register"]
            /\ UNCHANGED << wtx, snap, iter >>
       ELSE /\ chan' = ObserveOn(chan, C)
            /\ res' = [op |-> "step", what |-> "unexplained"]
            /\ UNCHANGED << root, wtx, snap, iter >>

\* WriteTxn returned (no guard: two writers inside one table is a violation, not a refusal)
WriteTxnC(x, tabs) ==
    /\ x \notin DOMAIN wtx /\ Range(tabs) \subseteq Tables
    /\ wtx' = (x :> [tabs |-> Range(tabs), work |-> [t \in Range(tabs) |-> root[t]], base |-> root,
                     st |-> "open", pub |-> << >>, rej |-> {}]) @@ wtx
    /\ res' = [op |-> "wtxn", tx |-> x, tables |-> tabs,
               overlap |-> \E y \in DOMAIN wtx : wtx[y].st = "open" /\ wtx[y].tabs \cap Range(tabs) # {}]
    /\ UNCHANGED << root, snap, chan, iter >>

\* Commit returned: publish now if no probe has shown it yet
CommitRetC(x, s) ==
    IF x \in DOMAIN wtx /\ wtx[x].st = "published" THEN CommitRet(x, s)
    ELSE IF WOpen(x) THEN Commit(x, s)
    ELSE Finished(x, "commit")

\* Close() returned: its internal transaction ran (serialised by the table lock) some time before
IterCloseC(i) ==
    /\ i \in DOMAIN iter /\ iter[i].st \in {"open", "dead"}
    /\ iter' = [iter EXCEPT ![i].st = "closed"]
    /\ root' = [root EXCEPT ![iter[i].t].trk = @ \ {i}]
    /\ res' = [op |-> "iterclose", it |-> i]
    /\ UNCHANGED << wtx, snap, chan >>

NewTableC(t) ==
    IF t \in Tables THEN Stutter("newtable") ELSE RegisterTable(t)

SApply(e) ==
    \/ e.op = "step"     /\ StepEv(e)
    \/ e.op = "wtxn"     /\ WriteTxnC(e.tx, e.tables)
    \/ e.op = "commit"   /\ CommitRetC(e.tx, e.snap)
    \/ e.op = "newtable" /\ NewTableC(e.t)
    \/ e.op \in {"deadlock", "gcscan"} /\ Stutter(e.op)
    \/ e.op = "iterclose" /\ IterCloseC(e.it)
    \/ e.op \notin {"step", "wtxn", "commit", "newtable", "deadlock", "iterclose", "gcscan"} /\ Apply(e)

\* ------------------------------------------------------------ judgements
RootGates == {"commit.rootlocked", "commit.rootbuilt", "commit.stored", "register.locked", "register.stored"}
Life(e) == Range(e.life)
MyTables(e) == UNION { Range(r.tables) : r \in { q \in Life(e) : q.actor = e.actor } }

\* tables the collector may legitimately lock: those holding a retained deletion that no open iterator needs
GCTablesP ==
    { t \in DOMAIN root' :
        \E j \in 1..Len(root'[t].grave) :
            /\ root'[t].grave[j].tracked
            /\ ~\E i \in DOMAIN iter' : iter'[i].st = "open" /\ iter'[i].t = t /\ root'[t].grave[j].rev > iter'[i].mark }
GCTables ==
    { t \in DOMAIN root :
        \E j \in 1..Len(root[t].grave) :
            /\ root[t].grave[j].tracked
            /\ ~\E i \in DOMAIN iter : iter[i].st = "open" /\ iter[i].t = t /\ root[t].grave[j].rev > iter[i].mark }
GCNow == IF gcfresh THEN gct \cup GCTablesP ELSE gct
TablesOfLife(r) == IF r.actor = "GC" THEN GCNow ELSE Range(r.tables)
MyTablesP(e) == IF e.actor = "GC" THEN GCNow ELSE MyTables(e)

BlockedBad(e) ==
    IF e.to # "blocked" THEN "ok"
    ELSE IF e.where = "table" THEN
        IF \E r \in Life(e) : r.actor # e.actor /\ TablesOfLife(r) \cap MyTablesP(e) # {}
        THEN "ok" ELSE "C10_BlockedByDisjoint"
    ELSE IF e.where = "root" THEN
        IF \E r \in Life(e) : r.actor # e.actor /\ r.gate \in RootGates THEN "ok" ELSE "C10_RootLockHeld"
    ELSE "MACHINERY_UnknownBlock"

StepBad(e) ==
    LET D == DOMAIN chan' IN
    IF ~e.probeok THEN "C10_ReadersNeverWait"
    ELSE IF res'.what = "unexplained" THEN
        IF e.probe.ntables < Cardinality(Tables) THEN "C05_RegistrationKept"
        ELSE IF e.probe.ntables > Cardinality(Tables) THEN "C05_C02_UnexplainedState"
        ELSE IF \E x \in OpenTx : ProbeMix(e.probe, root, After(x)) THEN "C02_Atomic_PartialVisibility"
        ELSE "C05_C02_UnexplainedState"
    ELSE IF \E c \in D : chan'[c].kind = "init" /\ chan'[c].closed /\ ~MayCloseP(c) THEN "C19_InitEarly"
    ELSE IF \E c \in D : chan'[c].kind # "init" /\ chan'[c].closed /\ ~MayCloseP(c)
         THEN IF \A c \in D : (chan'[c].kind # "init" /\ chan'[c].closed /\ ~MayCloseP(c))
                                 => (~chan[c].closed /\ \E x \in DOMAIN wtx' : chan'[c].t \in wtx'[x].rej)
              THEN "C06_CloseAfterVisible_KF_RejectedCas" ELSE "C06_CloseAfterVisible"
    ELSE IF \E c \in D : chan'[c].must /\ ~chan'[c].closed /\ chan'[c].by # 0 /\ wtx'[chan'[c].by].st = "done"
         THEN (IF \E c \in D : chan'[c].kind = "init" /\ chan'[c].must /\ ~chan'[c].closed THEN "C19_InitSignal" ELSE "C06_Must")
    ELSE BlockedBad(e)

\* in a concurrent run a wrong reply inside a transaction means it did not see an earlier commit
Rename(b, e) ==
    IF "actor" \notin DOMAIN e \/ b = "ok" THEN b
    ELSE IF e.actor \in {"setup", "finish"} THEN b
    ELSE CASE b = "C03_Result" -> "C05_C03_SeesEarlierCommits"
           [] b = "C04_C03_Exact_Wtxn" -> "C05_C04_SeesEarlierCommits"
           [] b = "C04_Exact" -> "C02_C05_C04_ReaderState"
           [] b = "C09_ObjectRevision" -> "C05_C09_ReaderState"
           [] OTHER -> b

SBad(e) ==
    CASE e.op = "step" -> StepBad(e)
      [] e.op = "wtxn" -> IF res'.overlap THEN "C05_Serial" ELSE "ok"
      [] e.op = "deadlock" -> "C10_NoDeadlock"
      [] e.op = "commit" -> IF e.nilret # (res'.snap = 0) THEN "C02_CommitResult" ELSE "ok"
      [] e.op = "newtable" -> "ok"
      [] e.op = "chans" -> "ok"     \* channel bits are judged at step events
      [] e.op = "panic" -> IF e.ctx = "sched" THEN PanicBad(e)
                           ELSE IF e.during = "crash" /\ e.msg = "fatal error: all goroutines are asleep - deadlock!"
                           THEN "C10_NoDeadlock" ELSE "C02_C05_NoPanic"
      [] OTHER -> Rename(Bad(e), e)

SStep ==
    /\ l <= Bounds[tr].e
    /\ LET e == Trace[l] IN
       /\ SApply(e)
       /\ viol' = IF viol.inv # "ok" THEN viol
                  ELSE LET b == SBad(e) IN IF b = "ok" THEN viol ELSE [l |-> l, inv |-> b, exp |-> ToString(res')]
       /\ gct' = IF e.op = "gcscan" THEN GCTables ELSE IF e.op = "step" /\ gcfresh THEN gct \cup GCTablesP ELSE gct
       /\ gcfresh' = IF e.op = "gcscan" THEN TRUE ELSE IF e.op = "step" THEN FALSE ELSE gcfresh
    /\ l' = l + 1 /\ tr' = tr /\ nops' = nops /\ KflNext

SDone == TDone /\ UNCHANGED << gct, gcfresh >>
SInit == TInit /\ gct = {} /\ gcfresh = FALSE
SNext == SStep \/ SDone
SSpec == SInit /\ [][SNext]_<< tvars, gct, gcfresh >>
=============================================================================
