SPECIFICATION SSpec
CONSTANTS
  Pks = {}
  ObjVals = {}
  MaxWtx = 0
  MaxSnap = 0
  MaxChan = 0
  MaxIter = 0
  MaxOps = 0
  NTables = 0
CHECK_DEADLOCK FALSE
