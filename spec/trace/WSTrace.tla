------------------------------ MODULE WSTrace ------------------------------
(* Trace specification for drv_ws: every logged call of WatchSet.Wait (virtual time, synctest)
   must satisfy the C20 outcome predicate of WatchSet.tla. *)
EXTENDS WatchSetProp, Json, IOUtils

Trace  == ndJsonDeserialize(IOEnv.VERIF_TRACE)
Bounds == ndJsonDeserialize(IOEnv.VERIF_BOUNDS)

VARIABLES tr, l, viol, mem
tvars == << tr, l, viol, mem >>
NoViol == [l |-> 0, inv |-> "ok", exp |-> ""]
Range(s) == { s[i] : i \in 1..Len(s) }

TInit == \E t \in 1..Len(Bounds) : tr = t /\ l = Bounds[t].s /\ viol = NoViol /\ mem = {}

\* closeAt logged as a sequence indexed by channel id (1..n), -1 = never
CloseFn(e) == [ c \in 1..Len(e.closeAt) |-> IF e.closeAt[c] < 0 THEN Never ELSE e.closeAt[c] ]
HasFn(e) == [ c \in 1..Len(e.has) |-> e.has[c] ]

Bad(e) ==
    IF e.op = "panic" THEN "C20_NoPanic"
    ELSE IF e.op # "wait" THEN "ok"
    ELSE FirstBad(Outcome(1..Len(e.closeAt), Range(e.members), CloseFn(e), IF e.tc < 0 THEN Never ELSE e.tc,
                          e.kind, e.settle, e.t0, e.t1, Range(e.ret), e.err, HasFn(e)))

TStep ==
    /\ l <= Bounds[tr].e
    /\ LET e == Trace[l] IN
       /\ viol' = IF viol.inv # "ok" THEN viol
                  ELSE LET b == Bad(e) IN IF b = "ok" THEN viol ELSE [l |-> l, inv |-> b, exp |-> ""]
       /\ mem' = IF e.op = "wait" THEN Range(e.members) \ Range(e.ret) ELSE mem
    /\ l' = l + 1 /\ tr' = tr

TDone ==
    /\ l = Bounds[tr].e + 1
    /\ PrintT(<< "VERDICT", Bounds[tr].id, viol.l, viol.inv, viol.exp >>)
    /\ l' = l + 1
    /\ UNCHANGED << tr, viol, mem >>

TNext == TStep \/ TDone
TSpec == TInit /\ [][TNext]_tvars
=============================================================================
