------------------------------ MODULE DBTrace ------------------------------
(***************************************************************************)
(* Trace specification for drv_db: every API call of the sequential driver *)
(* is one DB.tla action with the logged arguments; the logged replies and  *)
(* observations are judged by named invariants, each belonging to the      *)
(* property whose id prefixes its name (C01 C02 C03 C04 C05 C06 C07 C08    *)
(* C09 C19).                                                               *)
(***************************************************************************)
EXTENDS DB, Json, IOUtils

Trace  == ndJsonDeserialize(IOEnv.VERIF_TRACE)
Bounds == ndJsonDeserialize(IOEnv.VERIF_BOUNDS)

\* kfl: pairs << table, revision >> such that a transaction holding a rejected compare-and-* operation on the
\* table was committed while the table was at that revision (known finding L: that commit closes channels of the
\* table although no newer revision becomes visible)
VARIABLES tr, l, viol, kfl
tvars == << vars, tr, l, viol, kfl >>
NoViol == [l |-> 0, inv |-> "ok", exp |-> ""]

TInit ==
    /\ Init
    /\ \E t \in 1..Len(Bounds) : tr = t /\ l = Bounds[t].s
    /\ viol = NoViol
    /\ kfl = {}

KflNext ==
    kfl' = IF "rejected" \in DOMAIN res' /\ (res'.op \in {"commit", "publish"} \/ (res'.op = "step" /\ res'.what = "publish"))
           THEN kfl \cup { << t, root'[t].rev >> : t \in res'.rejected \cap DOMAIN root' }
           ELSE kfl

\* a channel handed out already closed although no newer revision is visible
FreshBad(c) ==
    IF << chan'[c].t, chan'[c].rev0 >> \in kfl /\ chan'[c].kind # "init" THEN "C06_FreshOpen_KF_RejectedCas" ELSE "C06_FreshOpen"

Stutter(name) == res' = [op |-> name] /\ UNCHANGED << root, wtx, snap, chan, iter >>

Apply(e) ==
    \/ e.op = "newtable"  /\ RegisterTable(e.t)
    \/ e.op = "wtxn"      /\ WriteTxn(e.tx, e.tables)
    \/ e.op \in {"insert", "modify", "cas", "delete", "cad"} /\ Write(e.op, e.tx, e.t, e.obj, e.guard, e.w, e.wc)
    \/ e.op = "deleteall" /\ DeleteAll(e.tx, e.t)
    \/ e.op = "snap"      /\ ReadTxn(e.id)
    \/ e.op = "query"     /\ QueryOp(e.src, e.t, e.index, e.q, e.key, e.w, e.wc)
    \/ e.op \in {"num", "rev"} /\ Scalar(e.src, e.t, e.op)
    \/ e.op = "commit"    /\ IF WOpen(e.tx) THEN Commit(e.tx, e.snap) ELSE Finished(e.tx, "commit")
    \/ e.op = "abort"     /\ IF WOpen(e.tx) THEN Abort(e.tx) ELSE Finished(e.tx, "abort")
    \/ e.op = "chans"     /\ Range(e.closed) \subseteq DOMAIN chan /\ Observe(Range(e.closed))
    \/ e.op = "changes"   /\ Changes(e.tx, e.t, e.it)
    \/ e.op = "observe"   /\ ObserveStart(e.it, e.t)
    \/ e.op = "derive"    /\ DeriveStart(e.it, e.t, e.t2)
    \/ e.op = "derivesync" /\ DeriveSync(e.it, e.t2)
    \/ e.op = "next"      /\ IterNext(e.it, e.src, e.cs, e.cw, e.ex, e.w)
    \/ e.op = "iterclose" /\ IterClose(e.it)
    \/ e.op = "reginit"   /\ RegInit(e.tx, e.t, e.name)
    \/ e.op = "markdone"  /\ MarkDone(e.tx, e.t, e.name)
    \/ e.op = "init"      /\ InitQuery(e.src, e.t, e.w, e.wc)
    \/ e.op = "grave" /\ e.t \in Tables /\ Stutter(e.op)
    \/ e.op \in {"sleep", "panic", "nop"} /\ Stutter(e.op)

\* ------------------------------------------------------------ judgements
\* same rows up to the revision column
SameButRevs(a, b) == Len(a) = Len(b) /\ \A i \in 1..Len(a) : a[i][1] = b[i][1] /\ a[i][2] = b[i][2]

\* may channel c be closed in the primed state?
MayCloseP(c) ==
    LET ch == chan'[c] IN
    IF ch.kind = "init" THEN ch.sawInit
    ELSE ch.t \in DOMAIN root' /\ root'[ch.t].rev > ch.rev0

FirstEv(e) == Trace[Bounds[tr].s + e.first - 1]

QueryBad(e) ==
    IF e.w # 0 /\ e.wc /\ ~MayCloseP(e.w) THEN FreshBad(e.w)
    ELSE IF e.first > 0 THEN
        LET f == FirstEv(e) IN
        IF ~(f.op = "query" /\ f.src = e.src /\ f.t = e.t /\ f.index = e.index /\ f.q = e.q /\ f.key = e.key)
        THEN "MACHINERY_BadFirstPointer"
        ELSE IF f.rows # e.rows THEN "C01_Stable" ELSE "ok"
    ELSE IF ~res'.dom \/ e.rows = res'.rows THEN "ok"
    ELSE IF e.ctx = "postabort" THEN "C02_AbortNoTrace"
    ELSE IF e.ctx = "postreject" THEN "C03_RejectedNoChange"
    ELSE IF e.index = "rev" THEN "C09_ByRevision"
    ELSE IF SameButRevs(e.rows, res'.rows) THEN "C09_ObjectRevision"
    ELSE IF ~IsSnap(e.src) THEN "C04_C03_Exact_Wtxn"
    ELSE "C04_Exact"

ScalarBad(e) ==
    IF e.first > 0 THEN
        LET f == FirstEv(e) IN
        IF ~(f.op = e.op /\ f.src = e.src /\ f.t = e.t) THEN "MACHINERY_BadFirstPointer"
        ELSE IF f.n # e.n THEN "C01_Stable" ELSE "ok"
    ELSE IF e.n = res'.n THEN "ok"
    ELSE IF e.ctx = "postabort" THEN "C02_AbortNoTrace"
    ELSE IF e.ctx = "postreject" THEN "C03_RejectedNoChange"
    ELSE IF e.op = "rev" THEN "C09_TableRevision"
    ELSE "C04_NumObjects"

WriteBad(e) ==
    IF e.had # res'.had \/ e.err # res'.err
    THEN \* known deviation N: guard revision 0 means "no guard" internally
         IF e.op \in {"cas", "cad"} /\ e.guard = 0 /\ e.err = "" THEN "C03_Result_KF_ZeroGuard" ELSE "C03_Result"
    ELSE IF e.had /\ (e.old[1] # res'.old[1] \/ e.old[2] # res'.old[2]) THEN "C03_Result"
    ELSE IF e.w # 0 /\ e.wc /\ ~MayCloseP(e.w) THEN FreshBad(e.w)
    ELSE "ok"

ChansBad(e) ==
    LET D == DOMAIN chan' IN
    IF e.ntables # Cardinality(DOMAIN root') THEN "C05_RegistrationKept"
    ELSE IF \E c \in D : chan'[c].closed /\ ~chan[c].closed /\ e.ctx = "postabort" THEN "C06_C02_AbortOpen"
    ELSE IF \E c \in D : chan'[c].kind = "init" /\ chan'[c].closed /\ ~MayCloseP(c) THEN "C19_InitEarly"
    ELSE IF \E c \in D : chan'[c].kind # "init" /\ chan'[c].closed /\ ~MayCloseP(c)
         THEN \* known deviation L: a rejected compare-and-* operation inserts and reverts, so the commit
              \* closes channels of the table although no new revision is visible
              IF res.op = "commit" /\ \A c \in D : (chan'[c].kind # "init" /\ chan'[c].closed /\ ~MayCloseP(c))
                                                      => (~chan[c].closed /\ chan'[c].t \in res.rejected)
              THEN "C06_CloseAfterVisible_KF_RejectedCas"
              ELSE "C06_CloseAfterVisible"
    ELSE IF \E c \in D : chan'[c].kind = "init" /\ chan'[c].must /\ ~chan'[c].closed THEN "C19_InitSignal"
    ELSE IF \E c \in D : chan'[c].kind # "init" /\ chan'[c].idx = "rev" /\ chan'[c].must /\ ~chan'[c].closed
         THEN "C07_C06_WatchMissed"
    ELSE IF \E c \in D : chan'[c].kind # "init" /\ chan'[c].must /\ ~chan'[c].closed THEN "C06_Must"
    ELSE "ok"

NextBad(e) ==
    LET it  == iter[e.it]
        it2 == iter'[e.it]
        S   == SrcCommitted(e.src, it.t)
        cs  == e.cs
        n   == Len(cs)
        rows == Range(Rows(S.objs))
        gr   == Range(S.grave)
        done == ~e.cw \/ e.ex
    IN
    IF \E j \in 1..n : cs[j][3] # cs[j][5] THEN "C07_RevisionField"
    ELSE IF (n > 0 /\ cs[1][3] <= it.last) \/ (\E j \in 1..(n - 1) : cs[j + 1][3] <= cs[j][3]) THEN "C07_Order"
    ELSE IF \E j \in 1..n : ~cs[j][4] /\ << cs[j][1], cs[j][2], cs[j][3] >> \notin rows THEN "C07_CommittedOnly"
    ELSE IF \E j \in 1..n : cs[j][4] /\ ~(\E g \in gr : g.pk = cs[j][1] /\ g.rev = cs[j][3] /\ g.val = cs[j][2])
         THEN "C07_CommittedOnly"
    ELSE IF ~e.cw /\ n > 0 THEN "C07_OpenWatchDelivers"
    \* an open channel with undelivered changes in the snapshot is a miss -- unless the commit that made them is
    \* still under way (published, not returned: it closes the channel before it returns, see IterNext)
    ELSE IF done /\ it2.replay # Rows(S.objs)
         THEN (IF e.cw THEN "C07_Converge"
               ELSE IF \E y \in DOMAIN wtx : wtx[y].st = "published" /\ it.t \in wtx[y].tabs THEN "ok"
               ELSE "C07_NoMiss")
    ELSE IF done /\ \E g \in gr : g.rev > it.crev /\ << g.pk, g.rev >> \notin it2.dels THEN "C07_DeletesDelivered"
    ELSE "ok"

GraveBad(e) ==
    LET need == Cardinality(Needed(e.t)) IN
    IF e.n < need THEN "C08_Retain"
    ELSE IF e.quiet /\ e.n # need
         THEN \* deletions retained although no registered iterator needs them: if an iterator of an aborted
              \* transaction exists the abort left its tracker behind
              IF \E i \in DOMAIN iter : iter[i].st = "dead" /\ iter[i].t = e.t THEN "C08_C02_AbortLeftTracker"
              ELSE "C08_Drain"
    ELSE "ok"

InitBad(e) ==
    IF e.initialized # res'.initialized \/ e.pending # res'.pending
    THEN (IF e.initialized = res'.initialized /\ Range(e.pending) = Range(res'.pending) THEN "ok"
          ELSE "C19_Exact")
    ELSE IF e.w # 0 /\ e.wc /\ ~chan'[e.w].sawInit THEN "C19_InitEarly"
    ELSE "ok"

PanicBad(e) ==
    CASE e.during \in {"changes", "iterclose", "next"} ->
            IF \E i \in DOMAIN iter : iter[i].st = "dead" \/ (iter[i].st = "closed" /\ iter[i].tx < 0)
            THEN "C02_AbortPanic" ELSE "C07_NoPanic"
      [] e.during \in {"insert", "modify", "cas", "delete", "cad", "deleteall"} ->
            \* a write that trips over the graveyard (stale entry of an earlier deletion) is a graveyard defect
            IF "graveyard" \in DOMAIN e /\ e.graveyard THEN "C08_C07_C03_GraveyardPanic" ELSE "C03_NoPanic"
      [] e.during \in {"commit", "abort", "wtxn"} ->
            IF Cardinality(DOMAIN root) > 0 /\ \E x \in DOMAIN wtx : Cardinality(DOMAIN wtx[x].base) < Cardinality(DOMAIN root)
            THEN "C05_RegistrationKept" ELSE "C02_NoPanic"
      [] e.during \in {"init", "reginit", "markdone"} -> "C19_NoPanic"
      [] e.during = "chans" -> "C05_RegistrationKept"
      \* the process died (core.run_harness closes the trace with this event): in a sequential script a deadlock
      \* means that a call waited for a lock nobody can hold (the generator only requests free tables); when an
      \* aborted transaction left an iterator behind, the abort is the suspect
      [] e.during = "crash" ->
            IF "kind" \in DOMAIN e /\ e.kind = "deadlock"
            THEN (IF \E i \in DOMAIN iter : iter[i].st = "dead" \/ (iter[i].st = "closed" /\ iter[i].tx < 0)
                  THEN "C10_C02_Deadlock" ELSE "C10_Deadlock")
            ELSE "C01_C02_C03_C04_C05_C06_C07_C08_C09_C19_Crash"
      [] OTHER -> "C04_NoPanic"

Bad(e) ==
    CASE e.op = "query" -> QueryBad(e)
      [] e.op \in {"num", "rev"} -> ScalarBad(e)
      [] e.op \in {"insert", "modify", "cas", "delete", "cad"} -> WriteBad(e)
      [] e.op = "deleteall" -> IF e.err # res'.err THEN "C03_Result" ELSE "ok"
      [] e.op = "commit" -> IF e.nilret # (res'.snap = 0) THEN "C02_CommitResult" ELSE "ok"
      [] e.op = "chans" -> ChansBad(e)
      [] e.op = "changes" -> IF e.err # res'.err THEN "C07_ChangesError" ELSE "ok"
      [] e.op = "next" -> NextBad(e)
      [] e.op = "grave" -> GraveBad(e)
      [] e.op = "init" -> InitBad(e)
      [] e.op = "panic" -> PanicBad(e)
      [] OTHER -> "ok"

TStep ==
    /\ l <= Bounds[tr].e
    /\ LET e == Trace[l] IN
       /\ Apply(e)
       /\ viol' = IF viol.inv # "ok" THEN viol
                  ELSE LET b == Bad(e) IN IF b = "ok" THEN viol ELSE [l |-> l, inv |-> b, exp |-> ToString(res')]
    /\ l' = l + 1 /\ tr' = tr /\ nops' = nops /\ KflNext

TDone ==
    /\ l = Bounds[tr].e + 1
    /\ PrintT(<< "VERDICT", Bounds[tr].id, viol.l, viol.inv, viol.exp >>)
    /\ l' = l + 1
    /\ UNCHANGED << vars, tr, viol, kfl >>

TNext == TStep \/ TDone
TSpec == TInit /\ [][TNext]_tvars
=============================================================================
