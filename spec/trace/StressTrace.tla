----------------------------- MODULE StressTrace -----------------------------
(***************************************************************************)
(* Validation of free-running stress runs (drv_stress, built with -race).  *)
(* The oracle is carried in the data: every write transaction x puts the   *)
(* marker x into each of its tables and increments the table's counter;    *)
(* aborted transactions write the same things.  A "trace" is one run; the  *)
(* judgements quantify over all (read, transaction) pairs of the run.      *)
(*  C02  all-or-none per (snapshot, transaction); nothing of an aborted one *)
(*  C05  no committed write lost: a transaction that returned before the   *)
(*       snapshot was taken is in it; counter = number of markers;         *)
(*       per-reader monotonicity; table revision = 1 + 2 x markers         *)
(*  C01  a retained snapshot re-read later equals its first reading        *)
(***************************************************************************)
EXTENDS Integers, Sequences, FiniteSets, TLC, Json, IOUtils

Trace  == ndJsonDeserialize(IOEnv.VERIF_TRACE)
Bounds == ndJsonDeserialize(IOEnv.VERIF_BOUNDS)

VARIABLES tr, l, viol
tvars == << tr, l, viol >>
NoViol == [l |-> 0, inv |-> "ok", exp |-> ""]
Range(s) == { s[i] : i \in 1..Len(s) }

TInit == \E t \in 1..Len(Bounds) : tr = t /\ l = Bounds[t].s /\ viol = NoViol

Rows == SubSeq(Trace, Bounds[tr].s, Bounds[tr].e)
Txns(E)  == { i \in 1..Len(E) : E[i].op = "txn" }
Reads(E) == { i \in 1..Len(E) : E[i].op = "read" }
Markers(rd, t) == Range(rd.tables[t + 1].markers)
In(rd, x, t) == x \in Markers(rd, t)

Bad(E) ==
    LET T == Txns(E) R == Reads(E) IN
    IF \E i \in 1..Len(E) : E[i].op = "panic" THEN "C01_C02_C05_NoPanic"
    ELSE IF \E i \in 1..Len(E) : E[i].op = "race" THEN "C01_NoRace"
    ELSE IF \E r \in R, x \in T : ~E[x].committed /\ \E t \in Range(E[x].tables) : In(E[r], E[x].x, t)
         THEN "C02_AbortedVisible"
    ELSE IF \E r \in R, x \in T : E[x].committed /\ Len(E[x].tables) > 1
                /\ (\E t \in Range(E[x].tables) : In(E[r], E[x].x, t))
                /\ (\E t \in Range(E[x].tables) : ~In(E[r], E[x].x, t))
         THEN "C02_Atomic_PartialVisibility"
    ELSE IF \E r \in R, x \in T : E[x].committed /\ E[x].t1 < E[r].s0 /\ E[r].of = 0
                /\ \E t \in Range(E[x].tables) : ~In(E[r], E[x].x, t)
         THEN "C05_NoLostWrite"
    ELSE IF \E r \in R, x \in T : E[x].t0 > E[r].s1 /\ \E t \in Range(E[x].tables) : In(E[r], E[x].x, t)
         THEN "C02_VisibleBeforeCommit"
    ELSE IF \E r \in R : \E t \in 0..(Len(E[r].tables) - 1) :
                \/ E[r].tables[t + 1].cnt # Cardinality(Markers(E[r], t))
                \/ E[r].tables[t + 1].num # Cardinality(Markers(E[r], t)) + 1
         THEN "C05_C02_CounterMismatch"
    ELSE IF \E r \in R : \E t \in 0..(Len(E[r].tables) - 1) : E[r].tables[t + 1].rev # 1 + 2 * Cardinality(Markers(E[r], t))
         THEN "C09_C05_RevisionMismatch"
    ELSE IF \E r1, r2 \in R : E[r1].r = E[r2].r /\ E[r1].of = 0 /\ E[r2].of = 0 /\ E[r1].s1 < E[r2].s0
                /\ \E t \in 0..(Len(E[r1].tables) - 1) : ~(Markers(E[r1], t) \subseteq Markers(E[r2], t))
         THEN "C05_ReaderWentBack"
    ELSE IF \E r1, r2 \in R : E[r2].of = E[r1].id /\ E[r2].tables # E[r1].tables THEN "C01_Stable"
    ELSE "ok"

TStep ==
    /\ l = Bounds[tr].s
    /\ LET b == Bad(Rows) IN viol' = IF b = "ok" THEN viol ELSE [l |-> l, inv |-> b, exp |-> ""]
    /\ l' = Bounds[tr].e + 1 /\ tr' = tr

TDone ==
    /\ l = Bounds[tr].e + 1
    /\ PrintT(<< "VERDICT", Bounds[tr].id, viol.l, viol.inv, viol.exp >>)
    /\ l' = l + 1
    /\ UNCHANGED << tr, viol >>

TNext == TStep \/ TDone
TSpec == TInit /\ [][TNext]_tvars
=============================================================================
