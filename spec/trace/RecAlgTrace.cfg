SPECIFICATION TSpec
CONSTANTS
  Keys = {1, 2, 3, 4}
  MaxChanges = 100000
  MaxFails = 100000
  MaxOther = 100000
  MaxRefresh = 100000
  RoundSize = 1
  Batch = FALSE
  MinB = 1
  MaxB = 2
  Variant = "fixed"
POSTCONDITION Report
CHECK_DEADLOCK FALSE
