SPECIFICATION TSpec
CONSTANTS
  Keys = {}
  Vals = {}
  MaxTree = 0
  MaxTxn = 0
  MaxIter = 0
  MaxChan = 0
  MaxOps = 0
CHECK_DEADLOCK FALSE
