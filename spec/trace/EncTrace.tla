------------------------------ MODULE EncTrace ------------------------------
(***************************************************************************)
(* Validation of the logged outputs of the real encoders (drv_enc) against *)
(* the requirements of KeyEnc.tla.  A "trace" is a table of encoder calls  *)
(* of one kind (composite non-unique keys, unsigned integers, injective    *)
(* encoders, LPM key codec); the requirement is evaluated over all pairs   *)
(* of its rows in one step.                                                *)
(***************************************************************************)
EXTENDS KeyEnc, Json, IOUtils, Sequences

Trace  == ndJsonDeserialize(IOEnv.VERIF_TRACE)
Bounds == ndJsonDeserialize(IOEnv.VERIF_BOUNDS)

VARIABLES tr, l, viol
tvars == << tr, l, viol >>
NoViol == [l |-> 0, inv |-> "ok", exp |-> ""]

TInit == \E t \in 1..Len(Bounds) : tr = t /\ l = Bounds[t].s /\ viol = NoViol

Rows == SubSeq(Trace, Bounds[tr].s, Bounds[tr].e)

\* first violated requirement of a table of composite keys
NukBad(E) ==
    LET N == 1..Len(E)
        BadOrder == { << i, j >> \in N \X N : ~OrderOK(E, i, j) } IN
    IF \E i \in N : E[i].op = "panic" THEN "C18_NoPanic"
    ELSE IF ~Injective(E) THEN "C18_Injective"
    \* (separability before order: the known deviation J below must not hide a wrong split of long keys)
    ELSE IF ~Separable(E) THEN "C18_Separable"
    ELSE IF BadOrder # {} THEN
        \* known deviation J: the 16-bit length suffix breaks the order for escaped primary keys >= 256 bytes
        IF \A w \in BadOrder : Len(E[w[1]].pri) >= 256 \/ Len(E[w[2]].pri) >= 256
        THEN "C18_Order_KF_LongPrimary" ELSE "C18_Order"
    ELSE "ok"

Witness(E) ==
    LET N == 1..Len(E)
        W == { << i, j >> \in N \X N : ~OrderOK(E, i, j) \/ (E[i].key = E[j].key /\ (E[i].s # E[j].s \/ E[i].p # E[j].p)) } IN
    IF W = {} THEN "" ELSE LET w == CHOOSE x \in W : TRUE IN ToString(<< E[w[1]].s, E[w[1]].p, E[w[2]].s, E[w[2]].p >>)

Bad(E) ==
    LET kind == E[1].op IN
    CASE kind = "nuk"  -> NukBad(E)
      [] kind = "uint" -> IF UintOK(E) THEN "ok" ELSE "C18_UintOrder"
      [] kind = "inj"  -> IF InjOK(E) THEN "ok" ELSE "C18_EncoderInjective"
      [] kind = "lpm"  -> IF \A i \in 1..Len(E) : LpmOK(E[i]) THEN "ok" ELSE "C18_LpmRoundTrip"
      [] kind = "panic" -> "C18_NoPanic"
      [] OTHER -> "ok"

TStep ==
    /\ l = Bounds[tr].s
    /\ LET b == Bad(Rows) IN
       viol' = IF b = "ok" THEN viol ELSE [l |-> l, inv |-> b, exp |-> IF Rows[1].op = "nuk" THEN Witness(Rows) ELSE ""]
    /\ l' = Bounds[tr].e + 1 /\ tr' = tr

TDone ==
    /\ l = Bounds[tr].e + 1
    /\ PrintT(<< "VERDICT", Bounds[tr].id, viol.l, viol.inv, viol.exp >>)
    /\ l' = l + 1
    /\ UNCHANGED << tr, viol >>

TNext == TStep \/ TDone
TSpec == TInit /\ [][TNext]_tvars
=============================================================================
