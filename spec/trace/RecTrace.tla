------------------------------ MODULE RecTrace ------------------------------
(***************************************************************************)
(* Trace specification for drv_rec: a monitor of the reconciler contract   *)
(* (C14, C15, C16) over the events observed at the boundary of the         *)
(* reconciler: user writes, every commit to the reconciled table (with the *)
(* complete list of changed objects, taken at the commit's linearization   *)
(* point), every call of Update/Delete/Prune with its outcome, returns of  *)
(* WaitUntilReconciled, and the table/target at quiescence.  All times are *)
(* virtual milliseconds.  The state is what the contract needs to remember:*)
(*   tbl[k]      the object as last committed   [ver, other, kind, rev]    *)
(*   hist[r]     table contents at table revision r (for Prune)            *)
(*   call[k]     the last operation attempted for k                        *)
(*   tgt[k]      the simulated target (last successful Update per key)     *)
(*   urev[k]     revision/kind of the last user change the reconciler has  *)
(*               to act on                                                 *)
(*   streak[k]   consecutive failures of one version: count, last wait     *)
(***************************************************************************)
EXTENDS Integers, Sequences, FiniteSets, TLC, Json, IOUtils

Trace  == ndJsonDeserialize(IOEnv.VERIF_TRACE)
Bounds == ndJsonDeserialize(IOEnv.VERIF_BOUNDS)

VARIABLES tr, l, viol, cfg, tbl, hist, call, tgt, urev, streak, changed, doneVer, firstWait,
          also   \* first non-convergence (C14) seen AFTER a violation of another property: see TStep
vars == << tr, l, viol, cfg, tbl, hist, call, tgt, urev, streak, changed, doneVer, firstWait, also >>
NoViol == [l |-> 0, inv |-> "ok", exp |-> ""]
Range(s) == { s[i] : i \in 1..Len(s) }

TInit ==
    /\ \E t \in 1..Len(Bounds) : tr = t /\ l = Bounds[t].s
    /\ viol = NoViol /\ also = NoViol
    /\ cfg = [minb |-> 0, maxb |-> 0, limit |-> 0, round |-> 0, idle |-> FALSE, refresh |-> 0]
    /\ tbl = << >> /\ hist = (0 :> {}) /\ call = << >> /\ tgt = << >> /\ urev = << >>
    /\ streak = << >> /\ changed = {} /\ doneVer = << >> /\ firstWait = 0

Put(f, k, v) == [x \in (DOMAIN f) \cup {k} |-> IF x = k THEN v ELSE f[x]]
Del(f, k) == [x \in (DOMAIN f) \ {k} |-> f[x]]
Contents(t) == { << k, t[k].ver >> : k \in DOMAIN t }

\* scheduling slack of the reconciler loop: a round is delayed by at most the rate limiter interval
Slack == 2 * cfg.limit + 2

\* ------------------------------------------------------------------ events
ApplyChanges(t, cs) ==
    LET RECURSIVE F(_, _)
        F(tt, i) == IF i > Len(cs) THEN tt
                    ELSE LET c == cs[i] IN
                         F(IF c.del THEN Del(tt, c.k)
                           ELSE Put(tt, c.k, [ver |-> c.ver, other |-> c.other, kind |-> c.kind, rev |-> c.rev, names |-> c.names]), i + 1)
    IN F(t, 1)

\* C15 for one change committed by the reconciler
RecChangeBad(c) ==
    IF c.del THEN "C15_ReconcilerDeleted"
    ELSE IF c.k \notin DOMAIN tbl THEN "C15_NoResurrect"
    \* (names: the statuses the other reconcilers of a StatusSet object have written)
    ELSE IF c.ver # tbl[c.k].ver \/ c.other # tbl[c.k].other \/ c.names # tbl[c.k].names THEN "C15_StatusOnly"
    \* the refresh loop (when enabled) marks objects that are Done, and only those, for another Update
    ELSE IF c.kind = "Refreshing"
         THEN (IF cfg.refresh = 0 THEN "C15_StatusOnly"
               ELSE IF tbl[c.k].kind # "Done" THEN "C15_RefreshOnlyDone" ELSE "ok")
    ELSE IF c.kind \notin {"Done", "Error"} THEN "C15_StatusOnly"
    ELSE IF c.k \notin DOMAIN call \/ call[c.k].kind # "update" \/ call[c.k].ver # c.ver THEN "C15_RightVersion"
    ELSE IF (c.kind = "Done") # (~call[c.k].fail) THEN "C15_RightOutcome"
    ELSE "ok"

\* the table as it reads at a commit (or at quiescence) is what the logged commits put there: a committed object
\* is immutable, so a difference is a version that was overwritten without a write transaction (a stale result
\* evaluated on a clone that shares memory with the newer version, say)
Rows(t) == { << k, t[k].ver, t[k].kind, t[k].rev, t[k].names >> : k \in DOMAIN t }
CommitBad(e) ==
    LET bad == IF e.by # "rec" THEN {}
               ELSE { RecChangeBad(e.changes[i]) : i \in 1..Len(e.changes) } \ {"ok"} IN
    IF bad # {} THEN CHOOSE b \in bad : TRUE
    ELSE IF Range(e.all) # Rows(ApplyChanges(tbl, e.changes)) THEN "C15_NewerOverwritten"
    ELSE "ok"

IsRetry(e) ==
    /\ e.k \in DOMAIN call /\ call[e.k].fail /\ call[e.k].kind = e.kind /\ call[e.k].ver = e.ver
    /\ e.k \notin changed

CallBad(e) ==
    IF e.kind = "prune" THEN
        IF e.skind # "true" THEN "C15_PruneBeforeInitialized"
        ELSE IF e.trev \in DOMAIN hist /\ { << e.arg[i][1], e.arg[i][2] >> : i \in 1..Len(e.arg) } # hist[e.trev]
             THEN "C15_PruneComplete"
        ELSE "ok"
    ELSE IF e.kind = "update" /\ e.k \in DOMAIN doneVer /\ doneVer[e.k] = e.ver /\ ~IsRetry(e)
         THEN "C15_NotPendingNotUpdated"
    ELSE IF IsRetry(e) THEN
        LET wait == e.t - call[e.k].t
            st == IF e.k \in DOMAIN streak THEN streak[e.k] ELSE [n |-> 0, w |-> 0] IN
        IF wait < cfg.minb THEN "C16_MinBackoff"
        ELSE IF st.n >= 1 /\ wait + Slack < st.w THEN "C16_Monotone"
        ELSE IF cfg.idle /\ wait > cfg.maxb + Slack THEN "C16_Cap"
        ELSE IF cfg.idle /\ st.n = 0 /\ firstWait > 0 /\ wait > firstWait + Slack THEN "C16_Reset"
        ELSE "ok"
    ELSE "ok"

\* keys whose last operation failed and that still await a retry
Failed == { k \in DOMAIN call : call[k].fail /\ k \notin changed }
MinOf(S) == CHOOSE x \in S : \A y \in S : x <= y

WaitBad(e) ==
    IF e.err # "" THEN "ok"
    ELSE IF e.ret < e.req THEN "C16_WaitRevision"
    \* (eff: the revision under which the change is visible to the reconciler, see Step)
    ELSE IF \E k \in DOMAIN urev : urev[k].eff <= e.req /\ (k \notin DOMAIN call \/ call[k].maxrev < urev[k].rev)
         THEN "C16_WaitAttempted"
    ELSE IF ~e.q THEN "ok"
    ELSE IF (e.lw = 0) # (Failed = {}) THEN "C16_LowWatermarkZero"
    ELSE IF Failed # {} /\ e.lw # MinOf({ call[k].orig : k \in Failed }) THEN "C16_LowWatermark"
    ELSE "ok"

\* convergence, judged on what the log shows at quiescence alone (table rows and target)
QuiesceC14(e) ==
    LET rows == Range(e.table)
        tg == { << e.target[i][1], e.target[i][2] >> : i \in 1..Len(e.target) } IN
    \* (with the refresh loop running an object may be on its way from Done to Done again)
    IF \E r \in rows : r[3] # "Done" /\ ~(cfg.refresh > 0 /\ r[3] = "Refreshing") THEN "C14_Converged_Status"
    ELSE IF { << r[1], r[2] >> : r \in rows } # tg THEN "C14_Converged_Target"
    ELSE "ok"

QuiesceBad(e) ==
    LET rows == Range(e.table)
        tg == { << e.target[i][1], e.target[i][2] >> : i \in 1..Len(e.target) } IN
    IF tg # { << k, tgt[k] >> : k \in DOMAIN tgt } THEN "MACHINERY_TargetBookkeeping"
    ELSE IF rows # Rows(tbl) THEN "C15_NewerOverwritten"
    ELSE QuiesceC14(e)

Bad(e) ==
    CASE e.op = "commit"  -> CommitBad(e)
      [] e.op = "call"    -> CallBad(e)
      [] e.op = "waitret" -> WaitBad(e)
      [] e.op = "quiesce" -> QuiesceBad(e)
      [] e.op = "panic"   -> "C14_C15_C16_NoPanic"
      [] OTHER -> "ok"

\* ------------------------------------------------------------- state update
Step(e) ==
    /\ cfg' = IF e.op = "config" THEN [minb |-> e.minb, maxb |-> e.maxb, limit |-> e.limit, round |-> e.round, idle |-> e.idle,
                                        refresh |-> e.refresh]
              ELSE cfg
    /\ tbl' = IF e.op = "commit" THEN ApplyChanges(tbl, e.changes) ELSE tbl
    /\ hist' = IF e.op = "commit" THEN Put(hist, e.rev, Contents(ApplyChanges(tbl, e.changes))) ELSE hist
    /\ urev' = IF e.op # "user" THEN urev
               ELSE IF e.kind = "delete" THEN (IF e.found THEN Put(urev, e.k, [rev |-> e.rev, eff |-> e.rev, del |-> TRUE]) ELSE urev)
               \* a status-only write of another reconciler keeps content and pending id: nothing new to attempt,
               \* but a change that was not attempted yet is from now on visible under the new revision only (the
               \* table keeps the latest revision of an object, so "every change up to rev" cannot include it
               \* below that); an attempt made from an older snapshot with the original revision still counts
               ELSE IF e.kind = "status2"
                    THEN (IF e.k \in DOMAIN urev /\ ~urev[e.k].del /\ (e.k \notin DOMAIN call \/ call[e.k].maxrev < urev[e.k].rev)
                          THEN Put(urev, e.k, [urev[e.k] EXCEPT !.eff = e.rev]) ELSE urev)
               ELSE Put(urev, e.k, [rev |-> e.rev, eff |-> e.rev, del |-> FALSE])
    \* (a status-only write of another reconciler is no change of the object: it neither asks for a new attempt
    \* nor restarts the retry sequence -- except on an object that is being refreshed: its status stays Refreshing
    \* under a new revision, so the incremental loop takes it up again as a changed object at once)
    /\ changed' = IF e.op = "user" /\ e.kind # "status2" /\ (e.kind \in {"upsert", "reinsert"} \/ e.found) THEN changed \cup {e.k}
                  ELSE IF e.op = "user" /\ e.kind = "status2" /\ e.found /\ e.k \in DOMAIN tbl /\ tbl[e.k].kind = "Refreshing"
                       THEN changed \cup {e.k}
                  ELSE IF e.op = "call" /\ e.kind # "prune" THEN changed \ {e.k}
                  ELSE changed
    /\ call' = IF e.op = "call" /\ e.kind # "prune"
               \* orig: the revision of the change whose reconciliation is failing; retries of it keep it
               THEN Put(call, e.k, [kind |-> e.kind, ver |-> e.ver, rev |-> e.rev, fail |-> e.fail, t |-> e.t,
                                    orig |-> IF IsRetry(e) THEN call[e.k].orig ELSE e.rev,
                                    maxrev |-> IF e.k \in DOMAIN call /\ call[e.k].maxrev > e.rev THEN call[e.k].maxrev ELSE e.rev])
               ELSE call
    /\ tgt' = IF e.op # "call" \/ e.fail THEN tgt
              ELSE IF e.kind = "update" THEN Put(tgt, e.k, e.ver)
              ELSE IF e.kind = "delete" THEN Del(tgt, e.k)
              ELSE [k \in { x \in DOMAIN tgt : \E i \in 1..Len(e.arg) : e.arg[i][1] = x } |-> tgt[k]]
    /\ streak' = IF e.op = "call" /\ e.kind # "prune"
                 THEN (IF IsRetry(e)
                       THEN Put(streak, e.k, [n |-> (IF e.k \in DOMAIN streak THEN streak[e.k].n ELSE 0) + 1, w |-> e.t - call[e.k].t])
                       ELSE Put(streak, e.k, [n |-> 0, w |-> 0]))
                 ELSE streak
    /\ firstWait' = IF e.op = "call" /\ e.kind # "prune" /\ IsRetry(e) /\ firstWait = 0 THEN e.t - call[e.k].t ELSE firstWait
    /\ doneVer' = IF e.op = "commit"
                  THEN LET RECURSIVE G(_, _)
                           G(d, i) == IF i > Len(e.changes) THEN d
                                      ELSE LET c == e.changes[i] IN
                                           G(IF c.del THEN Del(d, c.k)
                                             ELSE IF c.kind = "Done" THEN Put(d, c.k, c.ver) ELSE Del(d, c.k), i + 1)
                       IN G(doneVer, 1)
                  ELSE doneVer

TStep ==
    /\ l <= Bounds[tr].e
    /\ LET e == Trace[l] IN
       /\ viol' = IF viol.inv # "ok" THEN viol
                  ELSE LET b == Bad(e) IN IF b = "ok" THEN viol ELSE [l |-> l, inv |-> b, exp |-> ""]
       \* A log is judged by its first violation.  The convergence judgement (C14) at quiescence compares the logged
       \* table with the logged target only, so it stays meaningful after an earlier violation of C15/C16 (a status
       \* written for the wrong version both misreports, C15, and leaves the object unreconciled for ever, C14): it is
       \* reported in addition, for the check of C14.
       /\ also' = IF also.inv # "ok" \/ viol.inv = "ok" \/ e.op # "quiesce" THEN also
                  ELSE LET b == QuiesceC14(e) IN
                       IF b # "ok" THEN [l |-> l, inv |-> b, exp |-> ""] ELSE also
       /\ Step(e)
    /\ l' = l + 1 /\ tr' = tr

TDone ==
    /\ l = Bounds[tr].e + 1
    /\ PrintT(<< "VERDICT", Bounds[tr].id, viol.l, viol.inv, viol.exp >>)
    /\ also.inv # "ok" => PrintT(<< "ALSO", Bounds[tr].id, also.l, also.inv >>)
    /\ l' = l + 1
    /\ UNCHANGED << tr, viol, cfg, tbl, hist, call, tgt, urev, streak, changed, doneVer, firstWait, also >>

TNext == TStep \/ TDone
TSpec == TInit /\ [][TNext]_vars
=============================================================================
