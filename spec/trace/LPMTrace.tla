------------------------------ MODULE LPMTrace ------------------------------
(* Trace specification for drv_lpm (see PartTrace.tla for the scheme). *)
EXTENDS LPM, Json, IOUtils

Trace  == ndJsonDeserialize(IOEnv.VERIF_TRACE)
Bounds == ndJsonDeserialize(IOEnv.VERIF_BOUNDS)

VARIABLES tr, l, viol
tvars == << vars, tr, l, viol >>
NoViol == [l |-> 0, inv |-> "ok", exp |-> ""]

TInit ==
    /\ Init
    /\ \E t \in 1..Len(Bounds) : tr = t /\ l = Bounds[t].s
    /\ viol = NoViol

Apply(e) ==
    \/ e.op = "new"        /\ New(e.t)
    \/ e.op = "begin"      /\ Begin(e.x, e.t)
    \/ e.op = "reuse"      /\ Reuse(e.x, e.t)
    \/ e.op = "insert"     /\ Insert(e.x, e.p, e.v)
    \/ e.op = "delete"     /\ Delete(e.x, e.p)
    \/ e.op = "exact"      /\ LookupExact(e.s, e.p)
    \/ e.op = "lookup"     /\ Lookup(e.s, e.p)
    \/ e.op = "len"        /\ LenOf(e.s)
    \/ e.op = "all"        /\ All(e.s, e.f)
    \/ e.op = "prefix"     /\ Prefix(e.s, e.p, e.f)
    \/ e.op = "lowerbound" /\ LowerBound(e.s, e.p, e.f)
    \/ e.op = "next"       /\ IterNext(e.f)
    \/ e.op = "iterall"    /\ IterAll(e.f)
    \/ e.op = "commit"     /\ Commit(e.x, e.t)
    \/ e.op = "abandon"    /\ Abandon(e.x)
    \/ e.op \in {"panic", "nop"} /\ UNCHANGED vars

\* a committed trie that is not the newest one, or a retained iterator
Old(e) == IsTrie(e.s) /\ \E t \in DOMAIN trie : t > e.s.id

Bad(e) ==
    CASE e.op = "panic" -> "C13_NoPanic"
      [] e.op = "insert" /\ e.err # "" -> "C13_InsertError"
      [] e.op \in {"delete", "exact"} /\ (e.found # res'.found \/ (e.found /\ e.val # res'.val))
            -> IF e.op = "exact" /\ Old(e) THEN "C13_Persistent_Exact" ELSE "C13_Map"
      [] e.op = "lookup" /\ res'.dom /\ (e.found # res'.found \/ (e.found /\ e.val # res'.val))
            -> IF Old(e) THEN "C13_Persistent_Lookup" ELSE "C13_Longest"
      [] e.op = "len" /\ e.n # res'.n -> "C13_Len"
      [] e.op \in {"all", "prefix", "lowerbound"} /\ e.items # res'.items
            -> IF Old(e) THEN "C13_Persistent_Items"
               ELSE IF e.op = "prefix" THEN "C13_Prefix"
               ELSE IF e.op = "lowerbound" THEN "C13_LowerBound" ELSE "C13_All"
      [] e.op = "iterall" /\ e.items # res'.items -> "C13_Persistent_Iter"
      [] e.op = "next" /\ (e.ok # res'.ok \/ (e.ok /\ e.item # res'.item)) -> "C13_Persistent_Iter"
      [] OTHER -> "ok"

TStep ==
    /\ l <= Bounds[tr].e
    /\ LET e == Trace[l] IN
       /\ Apply(e)
       /\ viol' = IF viol.inv # "ok" THEN viol
                  ELSE LET b == Bad(e) IN IF b = "ok" THEN viol ELSE [l |-> l, inv |-> b, exp |-> ToString(res')]
    /\ l' = l + 1 /\ tr' = tr /\ nops' = nops

TDone ==
    /\ l = Bounds[tr].e + 1
    /\ PrintT(<< "VERDICT", Bounds[tr].id, viol.l, viol.inv, viol.exp >>)
    /\ l' = l + 1
    /\ UNCHANGED << vars, tr, viol >>

TNext == TStep \/ TDone
TSpec == TInit /\ [][TNext]_tvars
=============================================================================
