SPECIFICATION Spec
CONSTANTS
  Writers = {1, 2}
  Req <- MCReq
  Aborting = {}
  NT = 3
  Registrar = 4
  Collector = 5
  Mutant = "none"
INVARIANTS Inv_C02_Atomic Inv_C02_NoTrace Inv_C05_NoLost Inv_C05_RegKept Inv_C05_Serial Inv_C05_SeesEarlier Inv_C06_NotifyAfterStore Inv_C10_Independent
PROPERTIES Prop_C05_Grow
VIEW View
