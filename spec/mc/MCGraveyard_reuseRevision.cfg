SPECIFICATION Spec
CONSTANTS
  Keys = {1, 2}
  Iters = {1, 2}
  MaxRev = 4
  Mutant = "reuseRevision"
INVARIANTS Inv_C07_Converge Inv_C08_Retain Inv_C08_NoTombstoneOfLive Inv_C08_MarkBehind
CHECK_DEADLOCK FALSE
