SPECIFICATION FairSpec
CONSTANTS
  Writers = {1, 2, 3}
  Req <- MCReq
  Aborting = {3}
  NT = 3
  Registrar = 4
  Collector = 0
  Mutant = "none"
PROPERTIES Live_C10_AllDone
VIEW View
