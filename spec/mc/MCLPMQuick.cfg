SPECIFICATION Spec
CONSTANTS
  Prefixes <- MCPrefixes
  Queries <- MCQueries
  Vals = {1,2}
  MaxTrie = 3
  MaxTxn = 2
  MaxIter = 2
  MaxOps = 5
INVARIANTS Inv_C13_Sorted Inv_C13_Lookup
PROPERTIES Prop_C13_Persistent
VIEW View
CHECK_DEADLOCK FALSE
