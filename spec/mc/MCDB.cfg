SPECIFICATION Spec
CONSTANTS
  Pks <- MCPks
  ObjVals = {1}
  MaxWtx = 2
  MaxSnap = 2
  MaxChan = 2
  MaxIter = 0
  MaxOps = 7
  NTables = 1
INVARIANTS Inv_C09_TableOK Inv_C09_SnapOK Inv_C06_Never
PROPERTIES Prop_C01_Frozen Prop_C09_Monotone Prop_C02_Abort
VIEW View
CHECK_DEADLOCK FALSE
