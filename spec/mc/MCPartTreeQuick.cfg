SPECIFICATION Spec
CONSTANTS
  Keys <- MCKeys
  Vals = {1,2}
  MaxTree = 3
  MaxTxn = 2
  MaxIter = 1
  MaxChan = 2
  MaxOps = 5
INVARIANTS Inv_C12_Must Inv_C12_Never Inv_C12_RootExact Inv_C11_Sorted
PROPERTIES Prop_C11_Persistent
VIEW View
CHECK_DEADLOCK FALSE
