SPECIFICATION Spec
CONSTANTS
  Chans = {1, 2, 3}
  Times = {0, 1, 2, 4}
  Settles = {0, 2}
INVARIANT Inv_C20_Outcome
CHECK_DEADLOCK FALSE
