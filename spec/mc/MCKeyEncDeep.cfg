SPECIFICATION Spec
CONSTANTS
  Alphabet = {0, 1, 2}
  MaxLen = 3
INVARIANT Inv_C18_Scheme
CHECK_DEADLOCK FALSE
