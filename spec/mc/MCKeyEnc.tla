------------------------------ MODULE MCKeyEnc ------------------------------
(* Design check of the documented composite-key scheme on bounded strings. *)
EXTENDS KeyEnc
CONSTANTS Alphabet, MaxLen
VARIABLE done
Init == done = FALSE
Next == done = FALSE /\ done' = TRUE
Spec == Init /\ [][Next]_done
Inv_C18_Scheme == done => SchemeOK2(Alphabet, MaxLen)
=============================================================================
