------------------------------ MODULE MCDBImpl ------------------------------
EXTENDS DBImpl
\* three writers: {1} (disjoint from the next), {3,2} given unsorted, {3,1,1} with a duplicate
MCReq == (1 :> << 1 >>) @@ (2 :> << 3, 2 >>) @@ (3 :> << 3, 1, 1 >>)
\* opposite request orders over the same tables: deadlocks unless the locks are sorted
MCReqB == (1 :> << 1 >>) @@ (2 :> << 3, 2 >>) @@ (3 :> << 2, 3, 3 >>)
\* hist is only for schedule generation: keep it out of the design check
MCInit == Init
MCNext == Next /\ hist' = << >>
MCSpec == Init /\ hist = << >> /\ [][Next]_vars
=============================================================================
