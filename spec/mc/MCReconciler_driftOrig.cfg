SPECIFICATION FairSpec
CONSTANTS
  Keys = {1, 2}
  MaxChanges = 3
  MaxFails = 2
  MaxOther = 1
  MaxRefresh = 1
  RoundSize = 1
  Batch = FALSE
  MinB = 1
  MaxB = 2
  Variant = "driftOrig"
INVARIANTS Inv_C15_DoneMeansTarget Inv_C16_Backoff Inv_C16_Progress Inv_C16_LowWatermark
PROPERTIES Prop_C15_StatusOnly Live_C14
CHECK_DEADLOCK FALSE
