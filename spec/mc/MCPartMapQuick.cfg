SPECIFICATION Spec
CONSTANTS
  Keys <- MCKeys
  Vals = {1}
  MaxVal = 4
  MaxTxn = 1
  MaxOps = 5
INVARIANTS Inv_C17_Sorted Inv_C17_SetAlgebra
PROPERTIES Prop_C17_Persistent
VIEW View
CHECK_DEADLOCK FALSE
