SPECIFICATION FairSpec
CONSTANTS
  Writers = {1, 2}
  Req <- MCReq
  Aborting = {}
  NT = 3
  Registrar = 0
  Collector = 5
  Mutant = "none"
PROPERTIES Live_C10_AllDone
VIEW View
