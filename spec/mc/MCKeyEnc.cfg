SPECIFICATION Spec
CONSTANTS
  Alphabet = {0, 1, 2, 255}
  MaxLen = 2
INVARIANT Inv_C18_Scheme
CHECK_DEADLOCK FALSE
