SPECIFICATION FairSpec
CONSTANTS
  Keys = {1, 2}
  Iters = {1, 2}
  MaxRev = 4
  Mutant = "dropTriggerAfterPass"
PROPERTIES Live_C08_Drain
CHECK_DEADLOCK FALSE
