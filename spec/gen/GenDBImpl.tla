----------------------------- MODULE GenDBImpl -----------------------------
(* Schedule generation (R2): one schedule (sequence of actor ids) per transition of the
   DBImpl state graph; drv_sched replays it on the real goroutines. *)
EXTENDS DBImpl, Json
GReq  == (1 :> << 1 >>) @@ (2 :> << 3, 2 >>) @@ (3 :> << 3, 1, 1 >>)
GReq2 == (1 :> << 1, 2 >>) @@ (2 :> << 2 >>)
GNext == /\ \E a \in Actors : StepOf(a)
         /\ PrintT(<< "SCRIPT", ToJson(hist') >>)
GSpec == Init /\ [][GNext]_vars
\* with the collector: passes over one table only (the harness prepares collectable deletions in exactly that table)
GNextGC == GNext /\ Cardinality(gcreq') <= 1
GSpecGC == Init /\ [][GNextGC]_vars
=============================================================================
