----------------------------- MODULE GenWatchSet -----------------------------
(* Scenario generation: TLC prints every scenario of the bounded WatchSet model. *)
EXTENDS WatchSet, Json
GInit == Init /\ PrintT(<< "SCRIPT", ToJson(<< [op |-> "scenario", mem |-> sc.mem, closeAt |-> sc.closeAt, tc |-> sc.tc,
                                               kind |-> sc.kind, settle |-> sc.settle, t0 |-> sc.t0] >>) >>)
GSpec == GInit /\ [][FALSE]_vars
=============================================================================
