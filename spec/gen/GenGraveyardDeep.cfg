SPECIFICATION GSpec
CONSTANTS
  Keys = {1, 2}
  Iters = {1, 2}
  MaxRev = 4
  MaxOps = 9
  Mutant = "none"
VIEW GView
CHECK_DEADLOCK FALSE
