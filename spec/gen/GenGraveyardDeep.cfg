SPECIFICATION GSpec
CONSTANTS
  Keys = {1, 2}
  Iters = {1, 2}
  MaxRev = 5
  MaxOps = 10
  Mutant = "none"
VIEW GView
CHECK_DEADLOCK FALSE
