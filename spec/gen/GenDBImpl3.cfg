SPECIFICATION GSpec
CONSTANTS
  Writers = {1, 2, 3}
  Req <- GReq
  Aborting = {3}
  NT = 3
  Registrar = 4
  Collector = 0
  Mutant = "none"
VIEW View
CHECK_DEADLOCK FALSE
