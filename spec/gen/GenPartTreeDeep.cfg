SPECIFICATION GSpec
CONSTANTS
  Keys <- GKeys
  Vals = {1,2}
  MaxTree = 3
  MaxTxn = 2
  MaxIter = 1
  MaxChan = 2
  MaxOps = 5
VIEW View
CHECK_DEADLOCK FALSE
