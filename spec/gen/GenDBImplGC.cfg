SPECIFICATION GSpecGC
CONSTANTS
  Writers = {1, 2}
  Req <- GReq2
  Aborting = {}
  NT = 2
  Registrar = 0
  Collector = 3
  Mutant = "none"
VIEW View
CHECK_DEADLOCK FALSE
