----------------------------- MODULE GenPartMap -----------------------------
EXTENDS PartMap, Json
VARIABLE hist
GKeys == { << >>, <<97>>, <<97, 98>> }
GInit == Init /\ hist = << >>
GNext == /\ Next
         /\ hist' = Append(hist, res')
         /\ PrintT(<< "SCRIPT", ToJson(hist') >>)
GSpec == GInit /\ [][GNext]_<< vars, hist >>
=============================================================================
