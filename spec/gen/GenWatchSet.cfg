SPECIFICATION GSpec
CONSTANTS
  Chans = {1, 2, 3}
  Times = {0, 1, 2, 4}
  Settles = {0, 2}
CHECK_DEADLOCK FALSE
