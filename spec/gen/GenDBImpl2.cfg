SPECIFICATION GSpec
CONSTANTS
  Writers = {1, 2}
  Req <- GReq2
  Aborting = {}
  NT = 2
  Registrar = 3
  Collector = 0
  Mutant = "none"
VIEW View
CHECK_DEADLOCK FALSE
