---------------------------- MODULE GenGraveyard ----------------------------
(* Script generation (R2) from Graveyard.tla for the sequential driver drv_db: one script per transition of the
   graph whose steps are whole API calls -- a write transaction with one write, Changes(), Next(fresh snapshot)
   consuming n elements (all of them or a proper prefix), Close(), and "let virtual time pass" = the collector runs
   if it was triggered.  The scripts are judged by DBTrace.tla (C07, C08) like every other drv_db script. *)
EXTENDS Graveyard, Json
VARIABLES hist, nops
CONSTANT MaxOps
gvars == << vars, hist, nops >>

RECURSIVE Consume(_, _)
\* the iterator record after handing out the first n elements of its batch
Consume(r, n) ==
    IF n = 0 \/ r.batch = << >> THEN r
    ELSE LET h == Head(r.batch) IN
         Consume([r EXCEPT !.batch = Tail(@),
                           !.rep = [@ EXCEPT ![h.k] = IF h.del THEN 0 ELSE h.r],
                           !.urev = IF h.del THEN @ ELSE h.r,
                           !.drev = IF h.del THEN h.r ELSE @,
                           !.mark = IF h.del THEN h.r ELSE @], n - 1)
DelsIn(b, n) == \E j \in 1..n : j <= Len(b) /\ b[j].del

GNextCall(i, n) ==     \* n = -1: consume everything
    /\ it[i].st = "reg"
    /\ LET b == BatchOf(i)
           m == IF n < 0 THEN Len(b) ELSE n
           r0 == [it[i] EXCEPT !.batch = b, !.snap = live]
           r1 == Consume(r0, m) IN
       /\ (n < 0 \/ n < Len(b))
       /\ it' = [ClearFin EXCEPT ![i] = [r1 EXCEPT !.batch = << >>, !.inb = FALSE, !.fin = (n < 0)]]
       /\ trig' = (trig \/ DelsIn(b, m))
    /\ UNCHANGED << rev, live, grave, ideal, gc >>

GCollect ==            \* time passes: a triggered collection runs to its end
    /\ gc.phase = "idle"
    /\ trig' = FALSE
    /\ grave' = IF trig THEN { g \in grave : g.r > LowWatermark } ELSE grave
    /\ UNCHANGED << rev, live, ideal, it, gc >>

GStep ==
    \/ \E k \in Keys : Upsert(k) /\ hist' = Append(hist, [op |-> "upsert", k |-> k])
    \/ \E k \in Keys : Delete(k) /\ hist' = Append(hist, [op |-> "delete", k |-> k])
    \/ \E i \in Iters : NewIter(i) /\ hist' = Append(hist, [op |-> "changes", i |-> i])
    \/ \E i \in Iters, n \in {-1, 0, 1} : GNextCall(i, n) /\ hist' = Append(hist, [op |-> "next", i |-> i, n |-> n])
    \/ \E i \in Iters : Close(i) /\ hist' = Append(hist, [op |-> "close", i |-> i])
    \/ GCollect /\ hist' = Append(hist, [op |-> "time", n |-> Cardinality(grave'),
                                          \* nothing is retained that no registered iterator still needs
                                          exact |-> \A g \in grave' : \E i \in Registered : g.r > it[i].drev])
GNext == /\ nops < MaxOps /\ GStep /\ nops' = nops + 1
         /\ PrintT(<< "SCRIPT", ToJson(hist') >>)
GInit == Init /\ hist = << >> /\ nops = 0
GSpec == GInit /\ [][GNext]_gvars
GView == << vars >>
=============================================================================
