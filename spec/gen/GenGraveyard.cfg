SPECIFICATION GSpec
CONSTANTS
  Keys = {1, 2}
  Iters = {1, 2}
  MaxRev = 4
  MaxOps = 8
  Mutant = "none"
VIEW GView
CHECK_DEADLOCK FALSE
