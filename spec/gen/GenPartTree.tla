---------------------------- MODULE GenPartTree ----------------------------
(* Script generation (R2): with VIEW hiding hist, TLC prints one script per *)
(* transition of the abstract state graph, each along a shortest path.      *)
EXTENDS PartTree, Json
VARIABLE hist
GKeys == { << >>, <<1>>, <<1, 2>>, <<2>> }
GInit == Init /\ hist = << >>
GNext == /\ Next
         /\ hist' = Append(hist, res')
         /\ PrintT(<< "SCRIPT", ToJson(hist') >>)
GSpec == GInit /\ [][GNext]_<< vars, hist >>
=============================================================================
