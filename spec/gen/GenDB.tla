-------------------------------- MODULE GenDB --------------------------------
(* Script generation (R2) for drv_db: one script per transition of the bounded DB.tla state graph. *)
EXTENDS DB, Json
VARIABLE hist
GPks == { << >>, <<97>>, <<97, 98>> }
GInit == Init /\ hist = << >>
\* compare-and-* with guard 0 is the subject of a dedicated family (known finding N)
GStep ==
    \/ \E t \in 0..(NTables - 1) : t = Cardinality(Tables) /\ RegisterTable(t)
    \/ \E x \in Fresh(DOMAIN wtx, MaxWtx), t \in Tables : WriteTxn(x, << t >>)
    \/ \E x \in DOMAIN wtx, t \in Tables, o \in Objs, k \in {"insert", "modify", "delete"} : Write(k, x, t, o, 0, 0, FALSE)
    \/ \E x \in DOMAIN wtx, t \in Tables, o \in Objs, w \in Fresh(DOMAIN chan, MaxChan) : WOpen(x) /\ t \in wtx[x].tabs /\ Write("insert", x, t, o, 0, w, FALSE)
    \/ \E x \in DOMAIN wtx, t \in Tables, o \in Objs, k \in {"cas", "cad"} : \E g \in (Guards(t) \ {0}) \cup {root[t].rev + 1} : Write(k, x, t, o, g, 0, FALSE)
    \/ \E x \in DOMAIN wtx, t \in Tables : WOpen(x) /\ t \in wtx[x].tabs /\ DeleteAll(x, t)
    \/ \E s \in Fresh(DOMAIN snap, MaxSnap) : ReadTxn(s)
    \/ \E s \in Srcs, t \in Tables, q \in {"get", "all", "lowerbound", "prefix"}, p \in Pks, w \in {0} \cup Fresh(DOMAIN chan, MaxChan) :
          SrcHas(s, t) /\ QueryOp(s, t, "id", q, p, IF IsSnap(s) THEN w ELSE 0, FALSE)
    \/ \E s \in Srcs, t \in Tables : SrcHas(s, t) /\ (Scalar(s, t, "rev") \/ Scalar(s, t, "num"))
    \/ \E x \in DOMAIN wtx, s \in Fresh(DOMAIN snap, MaxSnap) : Commit(x, s)
    \/ \E x \in DOMAIN wtx : Abort(x)
    \/ \E C \in SUBSET Closable : MustSet \subseteq C /\ Observe(C)
GNext == /\ nops < MaxOps /\ GStep /\ nops' = nops + 1
         /\ hist' = Append(hist, res')
         /\ PrintT(<< "SCRIPT", ToJson(hist') >>)
GSpec == GInit /\ [][GNext]_<< vars, hist >>
=============================================================================
