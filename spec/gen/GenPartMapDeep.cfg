SPECIFICATION GSpec
CONSTANTS
  Keys <- GKeys
  Vals = {1}
  MaxVal = 4
  MaxTxn = 1
  MaxOps = 5
VIEW View
CHECK_DEADLOCK FALSE
