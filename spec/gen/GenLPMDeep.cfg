SPECIFICATION GSpec
CONSTANTS
  Prefixes <- GPrefixes
  Queries <- GQueries
  Vals = {1,2}
  MaxTrie = 3
  MaxTxn = 2
  MaxIter = 2
  MaxOps = 5
VIEW View
CHECK_DEADLOCK FALSE
