------------------------------- MODULE GenLPM -------------------------------
EXTENDS LPM, Json
VARIABLE hist
GPrefixes == { << >>, <<1>>, <<1, 0>>, <<1, 0, 1>>, <<0, 1, 1>> }
GQueries  == { << >>, <<1>>, <<1, 1>>, <<1, 0, 1>>, <<1, 0, 0>>, <<0, 1, 1>> }
GInit == Init /\ hist = << >>
GNext == /\ Next
         /\ hist' = Append(hist, res')
         /\ PrintT(<< "SCRIPT", ToJson(hist') >>)
GSpec == GInit /\ [][GNext]_<< vars, hist >>
=============================================================================
