SPECIFICATION GSpec
CONSTANTS
  Pks <- GPks
  ObjVals = {1, 2}
  MaxWtx = 2
  MaxSnap = 2
  MaxChan = 2
  MaxIter = 0
  MaxOps = 6
  NTables = 1
VIEW View
CHECK_DEADLOCK FALSE
