------------------------------ MODULE WatchSet ------------------------------
(* The code-shaped machine of WatchSet.Wait; the property itself is in WatchSetProp.tla. *)
EXTENDS WatchSetProp

-----------------------------------------------------------------------------
\* The machine (bounded model)
CONSTANTS Chans, Times, Settles

VARIABLES sc,      \* the scenario: [mem, closeAt, tc, kind, settle, t0]
          now, st, \* st in {"idle","first","settling","returned"}
          got,     \* channels collected so far
          sEnd,    \* end of the settle window
          out      \* [t1, ret, err, has]
vars == << sc, now, st, got, sEnd, out >>

Init ==
    /\ sc \in [ mem : SUBSET Chans, closeAt : [Chans -> Times \cup {Never}], tc : Times \cup {Never},
                kind : {"canceled", "deadline"}, settle : Settles, t0 : {0, 1} ]
    /\ now = 0 /\ st = "idle" /\ got = {} /\ sEnd = 0 /\ out = [t1 |-> 0, ret |-> {}, err |-> "", has |-> [c \in Chans |-> FALSE]]

CtxDone == sc.tc # Never /\ sc.tc <= now
Ready == { c \in sc.mem \ got : sc.closeAt[c] <= now }
Return(ret, err) ==
    /\ st' = "returned"
    /\ out' = [t1 |-> now, ret |-> ret, err |-> err, has |-> [c \in Chans |-> c \in sc.mem \ ret]]
    /\ UNCHANGED << sc, now, got, sEnd >>

Call == st = "idle" /\ now = sc.t0 /\ st' = "first" /\ UNCHANGED << sc, now, got, sEnd, out >>

\* first select: context or any closed member
FirstCtx == st = "first" /\ CtxDone /\ Return({}, sc.kind)
FirstChan ==
    /\ st = "first"
    /\ \E c \in Ready :
          IF sc.settle = 0 THEN Return({c}, "")
          ELSE /\ st' = "settling" /\ got' = {c} /\ sEnd' = now + sc.settle
               /\ UNCHANGED << sc, now, out >>
\* an empty set waits for the context only (covered by FirstCtx since Ready = {})

Collect == st = "settling" /\ \E c \in Ready : got' = got \cup {c} /\ UNCHANGED << sc, now, st, sEnd, out >>
SettleEnd == st = "settling" /\ (now >= sEnd \/ CtxDone) /\ Return(got, IF CtxDone THEN sc.kind ELSE "")

\* time advances only when nothing is due (timers and closed channels are served first)
Due == \/ (st = "idle" /\ now = sc.t0)
       \/ (st = "first" /\ (CtxDone \/ Ready # {}))
       \/ (st = "settling" /\ (now >= sEnd \/ CtxDone))
Tick == ~Due /\ st # "returned" /\ now < 12 /\ now' = now + 1 /\ UNCHANGED << sc, st, got, sEnd, out >>

Next == Call \/ FirstCtx \/ FirstChan \/ Collect \/ SettleEnd \/ Tick
Spec == Init /\ [][Next]_vars

Inv_C20_Outcome ==
    st = "returned" =>
        OutcomeOK(Outcome(Chans, sc.mem, sc.closeAt, sc.tc, sc.kind, sc.settle, sc.t0, out.t1, out.ret, out.err, out.has))
=============================================================================
