---------------------------- MODULE MCLockOrder ----------------------------
(* TLC sanity check of LockOrder.tla for small constants (the TLAPS proof covers all constants). *)
EXTENDS LockOrder, TLC
MCReq == (1 :> {1, 3}) @@ (2 :> {2, 3}) @@ (3 :> {1, 2, 3}) @@ (4 :> {2})
MCNoOne == 0
AllDone == \A a \in Actors : st[a] = "done"
\* no state but the final one is without a successor
NoDeadlock == AllDone \/ ENABLED Next
RootHolder == \A h \in Actors : rootmu = h => st[h] \in {"inroot", "reginroot"}
=============================================================================
