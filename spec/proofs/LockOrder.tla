----------------------------- MODULE LockOrder -----------------------------
(***************************************************************************)
(* The lock discipline of db.WriteTxn / Commit / Abort / registerTable for *)
(* ANY number of tables, writers and registrations (C10 beyond the bounds  *)
(* TLC explores).  Every writer takes the mutexes of its tables in         *)
(* ascending table order, works, takes the root mutex (while still holding *)
(* its tables), publishes, releases the root mutex and then all table      *)
(* mutexes at once; Abort releases the tables without touching the root    *)
(* mutex; a registration takes only the root mutex and afterwards behaves  *)
(* like a writer.  Proved with TLAPS, no bound on Tables, Actors, Req:     *)
(*   Inv       what a writer holds lies strictly below everything it still *)
(*             needs; the root mutex is held exactly by the actor inside   *)
(*             the root section; a finished actor holds nothing;           *)
(*   NoCycle   along "a waits for a table mutex held by h" the next table  *)
(*             strictly increases, and                                      *)
(*   RootHolderMoves  the holder of the root mutex is inside a root        *)
(*             section, whose exit (RootUnlock / RegUnlock) has no other   *)
(*             precondition: it waits for nothing.                         *)
(* Hence every chain of waiting actors is finite and ends in an actor that *)
(* can move: no deadlock, whatever the table sets and their order of       *)
(* request.  DBImpl.tla checks the same protocol in full detail (what is   *)
(* published, the collector) for small constants with TLC.                 *)
(***************************************************************************)
EXTENDS Naturals, TLAPS

CONSTANTS Tables,      \* a set of natural numbers (positions of the tables)
          Actors,
          Registrars,  \* the actors that first register a table
          Req          \* Req[a] \subseteq Tables: the tables actor a writes
ASSUME TablesNat == Tables \subseteq Nat
ASSUME ReqOK == Req \in [Actors -> SUBSET Tables]
ASSUME RegOK == Registrars \subseteq Actors

VARIABLES lk,          \* lk[t]: holder of the mutex of t, or NoOne
          rootmu,      \* holder of the root mutex, or NoOne
          st           \* st[a]: "reg" | "reginroot" | "locking" | "working" | "inroot" | "published" | "done"
NoOne == CHOOSE x : x \notin Actors
vars == << lk, rootmu, st >>
States == {"reg", "reginroot", "locking", "working", "inroot", "published", "done"}

Held(a) == { t \in Tables : lk[t] = a }
Rest(a) == Req[a] \ Held(a)
\* the next mutex a asks for: the least one it still needs
IsNext(a, t) == t \in Rest(a) /\ \A u \in Rest(a) : t <= u

Init == /\ lk = [t \in Tables |-> NoOne]
        /\ rootmu = NoOne
        /\ st = [a \in Actors |-> IF a \in Registrars THEN "reg" ELSE "locking"]

RegLock(a) ==
    /\ st[a] = "reg" /\ rootmu = NoOne
    /\ rootmu' = a /\ st' = [st EXCEPT ![a] = "reginroot"]
    /\ UNCHANGED lk
RegUnlock(a) ==
    /\ st[a] = "reginroot"
    /\ rootmu' = NoOne /\ st' = [st EXCEPT ![a] = "locking"]
    /\ UNCHANGED lk
Lock(a, t) ==
    /\ st[a] = "locking" /\ IsNext(a, t) /\ lk[t] = NoOne
    /\ lk' = [lk EXCEPT ![t] = a]
    /\ UNCHANGED << rootmu, st >>
Locked(a) ==
    /\ st[a] = "locking" /\ Rest(a) = {}
    /\ st' = [st EXCEPT ![a] = "working"]
    /\ UNCHANGED << lk, rootmu >>
RootLock(a) ==     \* Commit: the root mutex is taken while the table mutexes are held
    /\ st[a] = "working" /\ rootmu = NoOne
    /\ rootmu' = a /\ st' = [st EXCEPT ![a] = "inroot"]
    /\ UNCHANGED lk
RootUnlock(a) ==
    /\ st[a] = "inroot"
    /\ rootmu' = NoOne /\ st' = [st EXCEPT ![a] = "published"]
    /\ UNCHANGED lk
Release(a) ==      \* end of Commit, or Abort: all table mutexes at once
    /\ st[a] \in {"published", "working"}
    /\ lk' = [t \in Tables |-> IF lk[t] = a THEN NoOne ELSE lk[t]]
    /\ st' = [st EXCEPT ![a] = "done"]
    /\ UNCHANGED rootmu

Next == \E a \in Actors : \/ RegLock(a) \/ RegUnlock(a) \/ (\E t \in Tables : Lock(a, t)) \/ Locked(a)
                          \/ RootLock(a) \/ RootUnlock(a) \/ Release(a)
Spec == Init /\ [][Next]_vars

TypeOK == /\ lk \in [Tables -> Actors \cup {NoOne}]
          /\ rootmu \in Actors \cup {NoOne}
          /\ st \in [Actors -> States]

InRoot(a) == st[a] \in {"inroot", "reginroot"}

Inv == /\ TypeOK
       /\ \A a \in Actors : Held(a) \subseteq Req[a]
       /\ \A a \in Actors : \A t \in Held(a) : \A u \in Rest(a) : t < u
       /\ \A a \in Actors : st[a] \in {"done", "reg", "reginroot"} => Held(a) = {}
       /\ \A a \in Actors : InRoot(a) <=> rootmu = a

\* a waits for h: a's next table mutex is held by h
WaitsFor(a, h) == st[a] = "locking" /\ \E t \in Tables : IsNext(a, t) /\ lk[t] = h /\ h \in Actors
\* along a wait-for edge the next table mutex strictly increases
NoCycle == \A a, h \in Actors : WaitsFor(a, h) =>
              \A t, u \in Tables : IsNext(a, t) /\ IsNext(h, u) => t < u
LEMMA NoOneNotActor == NoOne \notin Actors
  BY NoSetContainsEverything DEF NoOne

THEOREM InvHolds == Spec => []Inv
<1>1. Init => Inv
  BY NoOneNotActor, ReqOK DEF Init, Inv, TypeOK, Held, Rest, InRoot, States
<1>2. Inv /\ [Next]_vars => Inv'
  <2> SUFFICES ASSUME Inv, [Next]_vars PROVE Inv'
    OBVIOUS
  <2>1. ASSUME NEW a \in Actors, NEW t \in Tables, Lock(a, t) PROVE Inv'
    <3>1. TypeOK'
      BY <2>1 DEF Lock, Inv, TypeOK
    <3>2. \A b \in Actors : Held(b)' = IF b = a THEN Held(b) \cup {t} ELSE Held(b)
      BY <2>1, NoOneNotActor DEF Lock, Held, Inv, TypeOK, IsNext, Rest
    <3>3. \A b \in Actors : Held(b)' \subseteq Req[b]
      BY <2>1, <3>2 DEF Lock, Inv, IsNext, Rest
    <3>4. \A b \in Actors : \A x \in Held(b)' : \A u \in Rest(b)' : x < u
      <4> TAKE b \in Actors
      <4>1. CASE b # a
        BY <4>1, <3>2 DEF Inv, Rest
      <4>2. CASE b = a
        <5>1. Rest(a)' = Rest(a) \ {t}
          BY <3>2 DEF Rest
        <5>2. \A u \in Rest(a) \ {t} : t < u
          BY <2>1, TablesNat, ReqOK DEF Lock, IsNext, Rest
        <5> QED BY <4>2, <3>2, <5>1, <5>2 DEF Inv
      <4> QED BY <4>1, <4>2
    <3>5. \A b \in Actors : st'[b] \in {"done", "reg", "reginroot"} => Held(b)' = {}
      BY <2>1, <3>2 DEF Lock, Inv
    <3>6. \A b \in Actors : InRoot(b)' <=> rootmu' = b
      BY <2>1 DEF Lock, Inv, InRoot
    <3> QED BY <3>1, <3>3, <3>4, <3>5, <3>6 DEF Inv
  <2>2. ASSUME NEW a \in Actors, Locked(a) PROVE Inv'
    BY <2>2 DEF Locked, Inv, TypeOK, Held, Rest, InRoot, States
  <2>3. ASSUME NEW a \in Actors, Release(a) PROVE Inv'
    <3>1. TypeOK'
      BY <2>3 DEF Release, Inv, TypeOK, States
    <3>2. \A b \in Actors : Held(b)' = IF b = a THEN {} ELSE Held(b)
      BY <2>3, NoOneNotActor DEF Release, Held, Inv, TypeOK
    <3>3. \A b \in Actors : b # a => Rest(b)' = Rest(b)
      BY <3>2 DEF Rest
    <3>4. \A b \in Actors : Held(b)' \subseteq Req[b]
      BY <3>2 DEF Inv
    <3>5. \A b \in Actors : \A x \in Held(b)' : \A u \in Rest(b)' : x < u
      BY <3>2, <3>3 DEF Inv
    <3>6. \A b \in Actors : st'[b] \in {"done", "reg", "reginroot"} => Held(b)' = {}
      <4> TAKE b \in Actors
      <4>1. CASE b = a
        BY <4>1, <3>2
      <4>2. CASE b # a
        <5>1. st'[b] = st[b]
          BY <2>3, <4>2 DEF Release, Inv, TypeOK
        <5> QED BY <4>2, <3>2, <5>1 DEF Inv
      <4> QED BY <4>1, <4>2
    <3>7. \A b \in Actors : InRoot(b)' <=> rootmu' = b
      <4> TAKE b \in Actors
      <4>1. CASE b = a
        BY <4>1, <2>3 DEF Release, Inv, InRoot, TypeOK
      <4>2. CASE b # a
        BY <4>2, <2>3 DEF Release, Inv, InRoot, TypeOK
      <4> QED BY <4>1, <4>2
    <3> QED BY <3>1, <3>4, <3>5, <3>6, <3>7 DEF Inv
  <2>4. ASSUME NEW a \in Actors, RegLock(a) \/ RegUnlock(a) \/ RootLock(a) \/ RootUnlock(a) PROVE Inv'
    <3>1. UNCHANGED lk
      BY <2>4 DEF RegLock, RegUnlock, RootLock, RootUnlock
    <3>2. TypeOK'
      BY <2>4 DEF RegLock, RegUnlock, RootLock, RootUnlock, Inv, TypeOK, States
    <3>3. \A b \in Actors : Held(b)' = Held(b) /\ Rest(b)' = Rest(b)
      BY <3>1 DEF Held, Rest
    <3>4. \A b \in Actors : st'[b] \in {"done", "reg", "reginroot"} => Held(b)' = {}
      <4> TAKE b \in Actors
      <4>1. CASE b = a
        BY <4>1, <2>4, <3>3 DEF RegLock, RegUnlock, RootLock, RootUnlock, Inv, TypeOK
      <4>2. CASE b # a
        BY <4>2, <2>4, <3>3 DEF RegLock, RegUnlock, RootLock, RootUnlock, Inv, TypeOK
      <4> QED BY <4>1, <4>2
    <3>5. \A b \in Actors : InRoot(b)' <=> rootmu' = b
      <4> TAKE b \in Actors
      <4>1. CASE b = a
        BY <4>1, <2>4, NoOneNotActor DEF RegLock, RegUnlock, RootLock, RootUnlock, Inv, TypeOK, InRoot
      <4>2. CASE b # a
        BY <4>2, <2>4, NoOneNotActor DEF RegLock, RegUnlock, RootLock, RootUnlock, Inv, TypeOK, InRoot
      <4> QED BY <4>1, <4>2
    <3> QED BY <3>2, <3>3, <3>4, <3>5 DEF Inv
  <2>5. CASE UNCHANGED vars
    BY <2>5 DEF vars, Inv, TypeOK, Held, Rest, InRoot
  <2> QED BY <2>1, <2>2, <2>3, <2>4, <2>5 DEF Next
<1> QED BY <1>1, <1>2, PTL DEF Spec

THEOREM NoCycleHolds == Inv => NoCycle
  <1> SUFFICES ASSUME Inv, NEW a \in Actors, NEW h \in Actors, WaitsFor(a, h),
                      NEW t \in Tables, NEW u \in Tables, IsNext(a, t), IsNext(h, u)
               PROVE t < u
    BY DEF NoCycle
  <1>1. PICK t2 \in Tables : IsNext(a, t2) /\ lk[t2] = h
    BY DEF WaitsFor
  <1>2. t2 = t
    BY <1>1, TablesNat DEF IsNext, Rest
  <1>3. t \in Held(h)
    BY <1>1, <1>2 DEF Held
  <1>4. u \in Rest(h)
    BY DEF IsNext
  <1> QED BY <1>3, <1>4 DEF Inv

\* the holder of the root mutex is inside a root section, whose exit has no precondition but that state
THEOREM RootHolderMoves == Inv => \A h \in Actors : rootmu = h => st[h] \in {"inroot", "reginroot"}
  BY DEF Inv, InRoot
=============================================================================
