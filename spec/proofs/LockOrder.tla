----------------------------- MODULE LockOrder -----------------------------
(***************************************************************************)
(* The table-lock discipline of db.WriteTxn for ANY number of tables and   *)
(* writers (C10 beyond the bounds TLC explores): every writer takes the    *)
(* mutexes of its tables in ascending table order and releases them all at *)
(* once.  Proved with TLAPS (no bound on Tables, Actors or the requested   *)
(* sets):                                                                  *)
(*   Inv      a mutex held by h lies strictly below the next mutex h will  *)
(*            ask for (or h has all it wants);                             *)
(*   NoCycle  hence "a waits for a mutex held by h" strictly increases     *)
(*            the pair's position: the wait-for relation has no cycle, so  *)
(*            some writer among those that are not finished can always     *)
(*            move (the one whose next mutex is the largest among the      *)
(*            waiting ones is waiting for a holder that is not waiting).   *)
(* DBImpl.tla checks the same protocol in full detail (root mutex,         *)
(* registrar, collector) for small constants with TLC.                     *)
(***************************************************************************)
EXTENDS Naturals, TLAPS

CONSTANTS Tables,      \* a set of natural numbers (positions of the tables)
          Actors,
          Req          \* Req[a] \subseteq Tables: the tables writer a asks for
ASSUME TablesNat == Tables \subseteq Nat
ASSUME ReqOK == Req \in [Actors -> SUBSET Tables]

VARIABLES lk,          \* lk[t]: holder of the mutex of t, or NoOne
          st           \* st[a] \in {"locking", "working", "done"}
NoOne == CHOOSE x : x \notin Actors
vars == << lk, st >>

Held(a) == { t \in Tables : lk[t] = a }
Rest(a) == Req[a] \ Held(a)
\* the next mutex a asks for: the least one it still needs
IsNext(a, t) == t \in Rest(a) /\ \A u \in Rest(a) : t <= u

Init == /\ lk = [t \in Tables |-> NoOne]
        /\ st = [a \in Actors |-> "locking"]

Lock(a, t) ==
    /\ st[a] = "locking" /\ IsNext(a, t) /\ lk[t] = NoOne
    /\ lk' = [lk EXCEPT ![t] = a]
    /\ UNCHANGED st

Locked(a) ==
    /\ st[a] = "locking" /\ Rest(a) = {}
    /\ st' = [st EXCEPT ![a] = "working"]
    /\ UNCHANGED lk

Release(a) ==      \* Commit or Abort: all mutexes at once
    /\ st[a] = "working"
    /\ lk' = [t \in Tables |-> IF lk[t] = a THEN NoOne ELSE lk[t]]
    /\ st' = [st EXCEPT ![a] = "done"]

Next == \E a \in Actors : (\E t \in Tables : Lock(a, t)) \/ Locked(a) \/ Release(a)
Spec == Init /\ [][Next]_vars

TypeOK == /\ lk \in [Tables -> Actors \cup {NoOne}]
          /\ st \in [Actors -> {"locking", "working", "done"}]

\* what a holds are tables it asked for, all below everything it still needs; a finished writer holds nothing
Inv == /\ TypeOK
       /\ \A a \in Actors : Held(a) \subseteq Req[a]
       /\ \A a \in Actors : \A t \in Held(a) : \A u \in Rest(a) : t < u
       /\ \A a \in Actors : st[a] = "done" => Held(a) = {}

\* a waits for h: a's next mutex is held by h
WaitsFor(a, h) == st[a] = "locking" /\ \E t \in Tables : IsNext(a, t) /\ lk[t] = h /\ h \in Actors
\* along a wait-for edge the next mutex strictly increases (or the holder needs nothing more)
NoCycle == \A a, h \in Actors : WaitsFor(a, h) =>
              \A t, u \in Tables : IsNext(a, t) /\ IsNext(h, u) => t < u

LEMMA NoOneNotActor == NoOne \notin Actors
  BY NoSetContainsEverything DEF NoOne

THEOREM InvHolds == Spec => []Inv
<1>1. Init => Inv
  BY NoOneNotActor, ReqOK DEF Init, Inv, TypeOK, Held, Rest
<1>2. Inv /\ [Next]_vars => Inv'
  <2> SUFFICES ASSUME Inv, [Next]_vars PROVE Inv'
    OBVIOUS
  <2>1. ASSUME NEW a \in Actors, NEW t \in Tables, Lock(a, t) PROVE Inv'
    <3>1. TypeOK'
      BY <2>1 DEF Lock, Inv, TypeOK
    <3>2. \A b \in Actors : Held(b)' = IF b = a THEN Held(b) \cup {t} ELSE Held(b)
      BY <2>1, NoOneNotActor DEF Lock, Held, Inv, TypeOK, IsNext, Rest
    <3>3. \A b \in Actors : Held(b)' \subseteq Req[b]
      BY <2>1, <3>2 DEF Lock, Inv, IsNext, Rest
    <3>4. \A b \in Actors : \A x \in Held(b)' : \A u \in Rest(b)' : x < u
      <4> TAKE b \in Actors
      <4>1. CASE b # a
        BY <4>1, <3>2 DEF Inv, Rest
      <4>2. CASE b = a
        <5>1. Rest(a)' = Rest(a) \ {t}
          BY <3>2 DEF Rest
        <5>2. \A u \in Rest(a) \ {t} : t < u
          BY <2>1, TablesNat, ReqOK DEF Lock, IsNext, Rest
        <5> QED BY <4>2, <3>2, <5>1, <5>2 DEF Inv
      <4> QED BY <4>1, <4>2
    <3>5. \A b \in Actors : st'[b] = "done" => Held(b)' = {}
      BY <2>1, <3>2 DEF Lock, Inv
    <3> QED BY <3>1, <3>3, <3>4, <3>5 DEF Inv
  <2>2. ASSUME NEW a \in Actors, Locked(a) PROVE Inv'
    BY <2>2 DEF Locked, Inv, TypeOK, Held, Rest
  <2>3. ASSUME NEW a \in Actors, Release(a) PROVE Inv'
    <3>1. TypeOK'
      BY <2>3 DEF Release, Inv, TypeOK
    <3>2. \A b \in Actors : Held(b)' = IF b = a THEN {} ELSE Held(b)
      BY <2>3, NoOneNotActor DEF Release, Held, Inv, TypeOK
    <3>3. \A b \in Actors : b # a => Rest(b)' = Rest(b)
      BY <3>2 DEF Rest
    <3>4. \A b \in Actors : Held(b)' \subseteq Req[b]
      BY <3>2 DEF Inv
    <3>5. \A b \in Actors : \A x \in Held(b)' : \A u \in Rest(b)' : x < u
      BY <3>2, <3>3 DEF Inv
    <3>6. \A b \in Actors : st'[b] = "done" => Held(b)' = {}
      <4> TAKE b \in Actors
      <4>1. CASE b = a
        BY <4>1, <3>2
      <4>2. CASE b # a
        <5>1. st'[b] = st[b]
          BY <2>3, <4>2 DEF Release, Inv, TypeOK
        <5> QED BY <4>2, <3>2, <5>1 DEF Inv
      <4> QED BY <4>1, <4>2
    <3> QED BY <3>1, <3>4, <3>5, <3>6 DEF Inv
  <2>4. CASE UNCHANGED vars
    BY <2>4 DEF vars, Inv, TypeOK, Held, Rest
  <2> QED BY <2>1, <2>2, <2>3, <2>4 DEF Next
<1> QED BY <1>1, <1>2, PTL DEF Spec

THEOREM NoCycleHolds == Inv => NoCycle
  <1> SUFFICES ASSUME Inv, NEW a \in Actors, NEW h \in Actors, WaitsFor(a, h),
                      NEW t \in Tables, NEW u \in Tables, IsNext(a, t), IsNext(h, u)
               PROVE t < u
    BY DEF NoCycle
  <1>1. PICK t2 \in Tables : IsNext(a, t2) /\ lk[t2] = h
    BY DEF WaitsFor
  <1>2. t2 = t
    BY <1>1, TablesNat DEF IsNext, Rest
  <1>3. t \in Held(h)
    BY <1>1, <1>2 DEF Held
  <1>4. u \in Rest(h)
    BY DEF IsNext
  <1> QED BY <1>3, <1>4 DEF Inv
=============================================================================
