SPECIFICATION Spec
CONSTANTS
  Tables = {1, 2, 3}
  Actors = {1, 2, 3}
  Req <- MCReq
  NoOne <- MCNoOne
INVARIANTS Inv NoCycle NoDeadlock
CHECK_DEADLOCK FALSE
