SPECIFICATION Spec
CONSTANTS
  Tables = {1, 2, 3}
  Actors = {1, 2, 3, 4}
  Registrars = {4}
  Req <- MCReq
  NoOne <- MCNoOne
INVARIANTS Inv NoCycle NoDeadlock RootHolder
CHECK_DEADLOCK FALSE
