-------------------------------- MODULE LPM --------------------------------
(***************************************************************************)
(* lpm.Trie / lpm.Txn / lpm.Iterator as a persistent map from bit prefixes *)
(* (sequences over {0,1}) with longest-prefix-match lookup (C13).          *)
(* The order of iteration is the lexicographic order of the bit strings    *)
(* with a prefix before its extensions -- Bytes!Less -- which equals       *)
(* "(prefix bits padded with zeros, prefix length)" (OrderLemma below).    *)
(***************************************************************************)
EXTENDS Bytes, TLC

CONSTANTS Prefixes,    \* prefixes used by the model
          Queries,     \* query prefixes / keys used by the model
          Vals, MaxTrie, MaxTxn, MaxIter, MaxOps

VARIABLES trie, txn, iter, res, nops
vars == << trie, txn, iter, res, nops >>

\* ordered map as a strictly ascending sequence of <<prefix, value>>
Pos(m, k)   == Cardinality({ i \in 1..Len(m) : Less(m[i][1], k) }) + 1
Has(m, k)   == LET p == Pos(m, k) IN p <= Len(m) /\ m[p][1] = k
ValOf(m, k) == m[Pos(m, k)][2]
MapPut(m, k, v) ==
    LET p == Pos(m, k) IN
    IF p <= Len(m) /\ m[p][1] = k THEN [m EXCEPT ![p] = << k, v >>]
    ELSE SubSeq(m, 1, p - 1) \o << << k, v >> >> \o SubSeq(m, p, Len(m))
MapDel(m, k) == LET p == Pos(m, k) IN SubSeq(m, 1, p - 1) \o SubSeq(m, p + 1, Len(m))

\* stored prefixes covered by q, in order
CoveredBy(m, q) == SelectSeq(m, LAMBDA e : IsPrefixOf(q, e[1]))
\* entries not below q
NotBelow(m, q)  == SubSeq(m, Pos(m, q), Len(m))
\* indexes of the stored prefixes that cover key
Covering(m, key) == { i \in 1..Len(m) : IsPrefixOf(m[i][1], key) }
\* the longest one (they are totally ordered by IsPrefixOf, so the largest index)
Longest(m, key) == CHOOSE i \in Covering(m, key) : \A j \in Covering(m, key) : j <= i

\* Lookup is specified for full-length keys and for stored prefixes (C13)
InLookupDomain(m, key) == Has(m, key) \/ \A i \in 1..Len(m) : Len(m[i][1]) <= Len(key)

IsTrie(s) == s.kind = "trie"
SrcOk(s)  == IF IsTrie(s) THEN s.id \in DOMAIN trie
             ELSE s.id \in DOMAIN txn /\ txn[s.id].st = "open"
SrcMap(s) == IF IsTrie(s) THEN trie[s.id] ELSE txn[s.id].m

Init == trie = << >> /\ txn = << >> /\ iter = << >> /\ res = [op |-> "none"] /\ nops = 0

New(t) ==
    /\ t \notin DOMAIN trie
    /\ trie' = (t :> << >>) @@ trie
    /\ res' = [op |-> "new", t |-> t]
    /\ UNCHANGED << txn, iter >>

Begin(x, t) ==
    /\ x \notin DOMAIN txn /\ t \in DOMAIN trie
    /\ txn' = (x :> [m |-> trie[t], st |-> "open"]) @@ txn
    /\ res' = [op |-> "begin", x |-> x, t |-> t]
    /\ UNCHANGED << trie, iter >>

\* Txn.Clear + Txn.Reuse(trie): a finished transaction object starts over
Reuse(x, t) ==
    /\ x \in DOMAIN txn /\ txn[x].st = "committed" /\ t \in DOMAIN trie
    /\ txn' = [txn EXCEPT ![x] = [m |-> trie[t], st |-> "open"]]
    /\ res' = [op |-> "reuse", x |-> x, t |-> t]
    /\ UNCHANGED << trie, iter >>

Open(x) == x \in DOMAIN txn /\ txn[x].st = "open"

Insert(x, p, v) ==
    /\ Open(x)
    /\ txn' = [txn EXCEPT ![x].m = MapPut(@, p, v)]
    /\ res' = [op |-> "insert", x |-> x, p |-> p, v |-> v]
    /\ UNCHANGED << trie, iter >>

Delete(x, p) ==
    /\ Open(x)
    /\ LET m == txn[x].m had == Has(m, p) IN
       /\ txn' = [txn EXCEPT ![x].m = IF had THEN MapDel(m, p) ELSE m]
       /\ res' = [op |-> "delete", x |-> x, p |-> p, found |-> had, val |-> IF had THEN ValOf(m, p) ELSE 0]
    /\ UNCHANGED << trie, iter >>

LookupExact(s, p) ==
    /\ SrcOk(s)
    /\ LET m == SrcMap(s) had == Has(m, p) IN
       res' = [op |-> "exact", s |-> s, p |-> p, found |-> had, val |-> IF had THEN ValOf(m, p) ELSE 0]
    /\ UNCHANGED << trie, txn, iter >>

Lookup(s, key) ==
    /\ SrcOk(s)
    /\ LET m == SrcMap(s) C == Covering(m, key) IN
       res' = [op |-> "lookup", s |-> s, p |-> key, dom |-> InLookupDomain(m, key),
               found |-> C # {}, val |-> IF C # {} THEN m[Longest(m, key)][2] ELSE 0]
    /\ UNCHANGED << trie, txn, iter >>

LenOf(s) ==
    /\ SrcOk(s)
    /\ res' = [op |-> "len", s |-> s, n |-> Len(SrcMap(s))]
    /\ UNCHANGED << trie, txn, iter >>

All(s, f) ==
    /\ SrcOk(s) /\ f \notin DOMAIN iter
    /\ iter' = (f :> SrcMap(s)) @@ iter
    /\ res' = [op |-> "all", s |-> s, f |-> f, items |-> SrcMap(s)]
    /\ UNCHANGED << trie, txn >>

Prefix(s, q, f) ==
    /\ SrcOk(s) /\ f \notin DOMAIN iter
    /\ LET its == CoveredBy(SrcMap(s), q) IN
       /\ iter' = (f :> its) @@ iter
       /\ res' = [op |-> "prefix", s |-> s, p |-> q, f |-> f, items |-> its]
    /\ UNCHANGED << trie, txn >>

LowerBound(s, q, f) ==
    /\ SrcOk(s) /\ f \notin DOMAIN iter
    /\ LET its == NotBelow(SrcMap(s), q) IN
       /\ iter' = (f :> its) @@ iter
       /\ res' = [op |-> "lowerbound", s |-> s, p |-> q, f |-> f, items |-> its]
    /\ UNCHANGED << trie, txn >>

IterNext(f) ==
    /\ f \in DOMAIN iter
    /\ IF Len(iter[f]) = 0
       THEN res' = [op |-> "next", f |-> f, ok |-> FALSE, item |-> << >>] /\ iter' = iter
       ELSE res' = [op |-> "next", f |-> f, ok |-> TRUE, item |-> Head(iter[f])]
            /\ iter' = [iter EXCEPT ![f] = Tail(@)]
    /\ UNCHANGED << trie, txn >>

IterAll(f) ==
    /\ f \in DOMAIN iter
    /\ res' = [op |-> "iterall", f |-> f, items |-> iter[f]]
    /\ UNCHANGED << trie, txn, iter >>

Commit(x, t) ==
    /\ Open(x) /\ t \notin DOMAIN trie
    /\ trie' = (t :> txn[x].m) @@ trie
    /\ txn' = [txn EXCEPT ![x].st = "committed"]
    /\ res' = [op |-> "commit", x |-> x, t |-> t]
    /\ UNCHANGED iter

Abandon(x) ==
    /\ Open(x)
    /\ txn' = [txn EXCEPT ![x].st = "abandoned"]
    /\ res' = [op |-> "abandon", x |-> x]
    /\ UNCHANGED << trie, iter >>

-----------------------------------------------------------------------------
Sorted(its) == \A i \in 1..(Len(its) - 1) : Less(its[i][1], its[i + 1][1])
Inv_C13_Sorted ==
    /\ \A t \in DOMAIN trie : Sorted(trie[t])
    /\ \A f \in DOMAIN iter : Sorted(iter[f])
\* a stored prefix looks itself up; the result covers the key and nothing longer does
Inv_C13_Lookup ==
    res.op = "lookup" /\ res.found =>
        LET m == SrcMap(res.s) i == Longest(m, res.p) IN
        /\ IsPrefixOf(m[i][1], res.p)
        /\ \A j \in 1..Len(m) : IsPrefixOf(m[j][1], res.p) => Len(m[j][1]) <= Len(m[i][1])
        /\ Has(m, res.p) => m[i][1] = res.p
Act_C13_Persistent ==
    /\ \A t \in DOMAIN trie : trie'[t] = trie[t]
    /\ \A f \in DOMAIN iter : iter'[f] = iter[f] \/ (Len(iter[f]) > 0 /\ iter'[f] = Tail(iter[f]))
Prop_C13_Persistent == [][Act_C13_Persistent]_vars

\* Order lemma: Less on bit strings = order on (bits padded with zeros to W, length)
Pad(p, W) == [i \in 1..W |-> IF i <= Len(p) THEN p[i] ELSE 0]
PadLess(p, q, W) == Less(Pad(p, W), Pad(q, W)) \/ (Pad(p, W) = Pad(q, W) /\ Len(p) < Len(q))
OrderLemma(W) == \A p, q \in SeqsUpTo({0, 1}, W) : Less(p, q) <=> PadLess(p, q, W)

Fresh(D, max) == IF Cardinality(D) < max THEN { Cardinality(D) + 1 } ELSE {}
Srcs == { [kind |-> "trie", id |-> t] : t \in DOMAIN trie }
        \cup { [kind |-> "txn", id |-> x] : x \in { y \in DOMAIN txn : txn[y].st = "open" } }

Step ==
    \/ \E t \in Fresh(DOMAIN trie, MaxTrie) : trie = << >> /\ New(t)
    \/ \E x \in Fresh(DOMAIN txn, MaxTxn), t \in DOMAIN trie : Begin(x, t)
    \/ \E x \in DOMAIN txn, t \in DOMAIN trie : Reuse(x, t)
    \/ \E x \in DOMAIN txn, p \in Prefixes, v \in Vals : Insert(x, p, v)
    \/ \E x \in DOMAIN txn, p \in Prefixes : Delete(x, p)
    \/ \E s \in Srcs, q \in Queries : LookupExact(s, q) \/ Lookup(s, q)
    \/ \E s \in Srcs : LenOf(s)
    \/ \E s \in Srcs, f \in Fresh(DOMAIN iter, MaxIter) : All(s, f)
    \/ \E s \in Srcs, q \in Queries, f \in Fresh(DOMAIN iter, MaxIter) : Prefix(s, q, f) \/ LowerBound(s, q, f)
    \/ \E f \in DOMAIN iter : IterNext(f) \/ IterAll(f)
    \/ \E x \in DOMAIN txn, t \in Fresh(DOMAIN trie, MaxTrie) : Commit(x, t)
    \/ \E x \in DOMAIN txn : Abandon(x)

Next == nops < MaxOps /\ Step /\ nops' = nops + 1
Spec == Init /\ [][Next]_vars
View == << trie, txn, iter >>
=============================================================================
