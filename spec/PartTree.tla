------------------------------ MODULE PartTree ------------------------------
(***************************************************************************)
(* part.Tree / part.Txn / part.Iterator as an abstract persistent ordered  *)
(* map from byte strings, plus the watch-channel contract (C11, C12).      *)
(*                                                                         *)
(* Every action is parameterised by everything the implementation is told  *)
(* (ids of the objects created, keys, values).  The model checker picks    *)
(* the parameters from small constants (Next); the trace specification     *)
(* (PartTrace.tla) picks them from the log of the real code.               *)
(*                                                                         *)
(*   tree[t]  committed Tree values and transaction clones (persistent)    *)
(*   txn[x]   transactions: base tree, private content, life-cycle         *)
(*   iter[f]  iterators: the remaining (key,value) items, frozen at birth  *)
(*   chan[c]  watch channels handed out and what they are obliged to do    *)
(*   head     the newest tree of the *linear* history (watch contract is   *)
(*            only defined along it, see DESIGN 9); 0 = none               *)
(*   res      result of the last action (the "reply")                      *)
(***************************************************************************)
EXTENDS Bytes, TLC

CONSTANTS Keys, Vals, MaxTree, MaxTxn, MaxIter, MaxChan, MaxOps

VARIABLES tree, txn, iter, chan, head, res, nops

vars == << tree, txn, iter, chan, head, res, nops >>

\* An ordered map is a sequence of <<key, value>> pairs, strictly ascending by
\* key (Inv_C11_Sorted).  All queries are then filters of that sequence.
EmptyMap == << >>
\* index of the first entry whose key is >= k (Len+1 if none)
Pos(m, k)  == Cardinality({ i \in 1..Len(m) : Less(m[i][1], k) }) + 1
Has(m, k)  == LET p == Pos(m, k) IN p <= Len(m) /\ m[p][1] = k
ValOf(m, k) == m[Pos(m, k)][2]
MapPut(m, k, v) ==
    LET p == Pos(m, k) IN
    IF p <= Len(m) /\ m[p][1] = k THEN [m EXCEPT ![p] = << k, v >>]
    ELSE SubSeq(m, 1, p - 1) \o << << k, v >> >> \o SubSeq(m, p, Len(m))
MapDel(m, k) ==
    LET p == Pos(m, k) IN SubSeq(m, 1, p - 1) \o SubSeq(m, p + 1, Len(m))
AllItems(m)       == m
PrefixItems(m, p) == SelectSeq(m, LAMBDA e : IsPrefixOf(p, e[1]))
LowerItems(m, b)  == SubSeq(m, Pos(m, b), Len(m))

\* the merge function the driver passes to Modify (old value, new value)
MergeVal(o, n) == (o * 3 + n) % 11

NoRes == [op |-> "none"]

\* content of a readable source: a tree/clone or an open transaction
IsTree(s) == s.kind = "tree"
SrcOk(s)  == IF IsTree(s) THEN s.id \in DOMAIN tree
             ELSE s.id \in DOMAIN txn /\ txn[s.id].st = "open"
SrcMap(s) == IF IsTree(s) THEN tree[s.id].m ELSE txn[s.id].m
SrcRO(s)  == IF IsTree(s) THEN tree[s.id].ro ELSE txn[s.id].ro
\* is the source on the linear history (so its channels carry obligations)?
SrcLinear(s) == IF IsTree(s) THEN s.id = head ELSE txn[s.id].lin

Init ==
    /\ tree = << >> /\ txn = << >> /\ iter = << >> /\ chan = << >>
    /\ head = 0 /\ res = NoRes /\ nops = 0

-----------------------------------------------------------------------------
\* Channel bookkeeping.
\*   kind   "root" (exact), "get"/"ins" (key), "prefix" (prefix)
\*   live   handed out on the linear history: later notifications may close it
\*   oblig  must-close obligations apply (dropped when its origin is abandoned)
\*   org    id of the open transaction it was handed out by, 0 if from a tree
\*   doom   transaction id whose Notify must close it, 0 if none
\*   must   it has to be closed by now;  may: it is allowed to be closed by now
RelevantK(kind, key, k) ==
    CASE kind = "root"   -> TRUE
      [] kind = "prefix" -> IsPrefixOf(key, k)
      [] OTHER           -> key = k
Relevant(c, k) == RelevantK(c.kind, c.key, k)

\* linear transactions that are open or committed-but-not-notified (at most one)
Pending == { y \in DOMAIN txn : txn[y].lin /\ txn[y].st \in {"open", "committed"} }

NewChanD(kind, key, s, selfDirty) ==
    LET k2  == IF SrcRO(s) THEN "root" ELSE kind
        lin == SrcLinear(s)
        D   == { y \in Pending :
                   /\ txn[y].st = "open"
                   /\ \/ k2 = "root" /\ (IsTree(s) \/ s.id = y)
                         /\ (txn[y].dirty \/ (selfDirty /\ ~IsTree(s)))
                      \/ k2 # "root" /\ IsTree(s) /\ \E k \in txn[y].changed : RelevantK(k2, key, k) }
    IN [ kind |-> k2, key |-> key, live |-> lin, oblig |-> lin,
         org  |-> IF IsTree(s) THEN 0 ELSE s.id,
         doom |-> IF lin /\ D # {} THEN CHOOSE y \in D : TRUE ELSE 0,
         must |-> FALSE, may |-> ~lin, closed |-> FALSE ]

NewChan(kind, key, s) == NewChanD(kind, key, s, FALSE)

\* transaction x (on the linear history) changed key k: channels that were
\* handed out by a tree (or by an earlier, committed transaction) and are
\* relevant to k must be closed by x's Notify.  Root channels handed out by x
\* itself are the base tree's root channel and are doomed as well, and so are
\* the channels of InsertWatch/ModifyWatch of x when x changes the key again
\* ("close when that key is next changed").
DoomFor(x, k) ==
    [ c \in DOMAIN chan |->
        IF chan[c].live /\ chan[c].oblig /\ ~chan[c].must /\ Relevant(chan[c], k)
           /\ (chan[c].org # x \/ chan[c].kind \in {"root", "ins"})
        THEN [chan[c] EXCEPT !.doom = x] ELSE chan[c] ]

\* Notify of dirty transaction x: doomed channels must now be closed; every
\* other live non-root channel may be closed (a coarser node was touched)
AfterNotify(x) ==
    [ c \in DOMAIN chan |->
        LET ch == chan[c] IN
        IF ch.doom = x THEN [ch EXCEPT !.must = TRUE, !.may = TRUE, !.doom = 0]
        ELSE IF ch.live /\ ch.kind # "root" THEN [ch EXCEPT !.may = TRUE]
        ELSE ch ]

\* transaction x dropped: nothing it did may ever close anything; channels
\* it handed out may belong to garbage nodes, so they carry no obligation
AfterAbandon(x) ==
    [ c \in DOMAIN chan |->
        LET ch == chan[c] IN
        IF ch.org = x /\ ch.kind = "root" THEN [ch EXCEPT !.doom = 0, !.org = 0]  \* it is the base tree's root channel
        ELSE IF ch.org = x THEN [ch EXCEPT !.oblig = FALSE, !.doom = 0, !.org = 0]
        ELSE IF ch.doom = x THEN [ch EXCEPT !.doom = 0]
        ELSE ch ]

\* transaction x became part of history: its channels now belong to the tree
AfterCommit(x) ==
    [ c \in DOMAIN chan |->
        IF chan[c].org = x /\ chan[c].doom # x THEN [chan[c] EXCEPT !.org = 0] ELSE chan[c] ]

-----------------------------------------------------------------------------
\* Actions

New(t, ro) ==
    /\ t \notin DOMAIN tree
    /\ tree' = (t :> [m |-> EmptyMap, ro |-> ro]) @@ tree
    /\ head' = IF head = 0 THEN t ELSE head
    /\ res' = [op |-> "new", t |-> t, ro |-> ro]
    /\ UNCHANGED << txn, iter, chan >>

\* lin: the driver intends this transaction to extend the linear history
Begin(x, t, lin) ==
    /\ x \notin DOMAIN txn /\ t \in DOMAIN tree
    /\ txn' = (x :> [base |-> t, m |-> tree[t].m, ro |-> tree[t].ro, st |-> "open",
                     lin |-> (lin /\ t = head), dirty |-> FALSE, changed |-> {}]) @@ txn
    /\ res' = [op |-> "begin", x |-> x, t |-> t, lin |-> lin]
    /\ UNCHANGED << tree, iter, chan, head >>

Open(x) == x \in DOMAIN txn /\ txn[x].st = "open"

\* Insert / InsertWatch (w = id of the returned channel, 0 if none)
Insert(x, k, v, w) ==
    /\ Open(x)
    /\ LET m == txn[x].m
           had == Has(m, k)
           ch1 == IF txn[x].lin THEN DoomFor(x, k) ELSE chan
       IN /\ txn' = [txn EXCEPT ![x].m = MapPut(m, k, v), ![x].dirty = TRUE,
                                   ![x].changed = @ \cup {k}]
          /\ res' = [op |-> "insert", x |-> x, k |-> k, v |-> v, w |-> w,
                      had |-> had, old |-> IF had THEN ValOf(m, k) ELSE 0]
          /\ chan' = IF w = 0 THEN ch1
                     ELSE (w :> NewChanD("ins", k, [kind |-> "txn", id |-> x], TRUE)) @@ ch1
    /\ UNCHANGED << tree, iter, head >>

Modify(x, k, v, w) ==
    /\ Open(x)
    /\ LET m == txn[x].m
           had == Has(m, k)
           nv  == IF had THEN MergeVal(ValOf(m, k), v) ELSE v
           ch1 == IF txn[x].lin THEN DoomFor(x, k) ELSE chan
       IN /\ txn' = [txn EXCEPT ![x].m = MapPut(m, k, nv), ![x].dirty = TRUE,
                                   ![x].changed = @ \cup {k}]
          /\ res' = [op |-> "modify", x |-> x, k |-> k, v |-> v, w |-> w,
                      had |-> had, old |-> IF had THEN ValOf(m, k) ELSE 0, new |-> nv]
          /\ chan' = IF w = 0 THEN ch1
                     ELSE (w :> NewChanD("ins", k, [kind |-> "txn", id |-> x], TRUE)) @@ ch1
    /\ UNCHANGED << tree, iter, head >>

Delete(x, k) ==
    /\ Open(x)
    /\ LET m == txn[x].m
           had == Has(m, k)
       IN /\ txn' = [txn EXCEPT ![x].m = IF had THEN MapDel(m, k) ELSE m,
                                ![x].dirty = txn[x].dirty \/ had,
                                ![x].changed = IF had THEN @ \cup {k} ELSE @]
          /\ res' = [op |-> "delete", x |-> x, k |-> k, had |-> had, old |-> IF had THEN ValOf(m, k) ELSE 0]
          /\ chan' = IF had /\ txn[x].lin THEN DoomFor(x, k) ELSE chan
    /\ UNCHANGED << tree, iter, head >>

Get(s, k, w) ==
    /\ SrcOk(s)
    /\ LET m == SrcMap(s) found == Has(m, k) IN
       res' = [op |-> "get", s |-> s, k |-> k, w |-> w, found |-> found, val |-> IF found THEN ValOf(m, k) ELSE 0]
    /\ chan' = IF w = 0 THEN chan ELSE (w :> NewChan("get", k, s)) @@ chan
    /\ UNCHANGED << tree, txn, iter, head >>

LenOf(s) ==
    /\ SrcOk(s)
    /\ res' = [op |-> "len", s |-> s, n |-> Len(SrcMap(s))]
    /\ UNCHANGED << tree, txn, iter, chan, head >>

RootWatch(s, w) ==
    /\ SrcOk(s)
    /\ chan' = (w :> NewChan("root", << >>, s)) @@ chan
    /\ res' = [op |-> "rootwatch", s |-> s, w |-> w]
    /\ UNCHANGED << tree, txn, iter, head >>

\* Prefix / LowerBound / Iterator create an iterator f over a frozen listing
Prefix(s, p, f, w) ==
    /\ SrcOk(s) /\ f \notin DOMAIN iter
    /\ LET its == PrefixItems(SrcMap(s), p) IN
       /\ iter' = (f :> [items |-> its]) @@ iter
       /\ res' = [op |-> "prefix", s |-> s, k |-> p, f |-> f, w |-> w, items |-> its]
    /\ chan' = IF w = 0 THEN chan ELSE (w :> NewChan("prefix", p, s)) @@ chan
    /\ UNCHANGED << tree, txn, head >>

LowerBound(s, b, f) ==
    /\ SrcOk(s) /\ f \notin DOMAIN iter
    /\ LET its == LowerItems(SrcMap(s), b) IN
       /\ iter' = (f :> [items |-> its]) @@ iter
       /\ res' = [op |-> "lowerbound", s |-> s, k |-> b, f |-> f, items |-> its]
    /\ UNCHANGED << tree, txn, chan, head >>

Iterate(s, f) ==
    /\ SrcOk(s) /\ f \notin DOMAIN iter
    /\ LET its == AllItems(SrcMap(s)) IN
       /\ iter' = (f :> [items |-> its]) @@ iter
       /\ res' = [op |-> "iterator", s |-> s, f |-> f, items |-> its]
    /\ UNCHANGED << tree, txn, chan, head >>

\* All on a tree or transaction (no iterator object retained)
AllOf(s) ==
    /\ SrcOk(s)
    /\ res' = [op |-> "all", s |-> s, items |-> AllItems(SrcMap(s))]
    /\ UNCHANGED << tree, txn, iter, chan, head >>

\* Txn.All whose callback writes to the same transaction when it receives element number `at`
\* (1-based): the listing is that of the moment of the call, whatever the callback does
AllW(x, at, kind, k, v) ==
    /\ Open(x)
    /\ LET m    == txn[x].m
           fire == at <= Len(m)
           had  == Has(m, k)
           chg  == fire /\ (kind = "insert" \/ had)
           m2   == IF ~fire THEN m
                   ELSE IF kind = "insert" THEN MapPut(m, k, v)
                   ELSE IF had THEN MapDel(m, k) ELSE m
       IN /\ txn' = [txn EXCEPT ![x].m = m2, ![x].dirty = @ \/ chg,
                                ![x].changed = IF chg THEN @ \cup {k} ELSE @]
          /\ res' = [op |-> "allw", x |-> x, at |-> at, kind |-> kind, k |-> k, v |-> v, items |-> AllItems(m)]
          /\ chan' = IF chg /\ txn[x].lin THEN DoomFor(x, k) ELSE chan
    /\ UNCHANGED << tree, iter, head >>

IterNext(f) ==
    /\ f \in DOMAIN iter
    /\ LET its == iter[f].items IN
       IF Len(its) = 0
       THEN /\ res' = [op |-> "next", f |-> f, ok |-> FALSE, item |-> << >>]
            /\ iter' = iter
       ELSE /\ res' = [op |-> "next", f |-> f, ok |-> TRUE, item |-> Head(its)]
            /\ iter' = [iter EXCEPT ![f].items = Tail(its)]
    /\ UNCHANGED << tree, txn, chan, head >>

\* Iterator.All does not consume
IterAll(f) ==
    /\ f \in DOMAIN iter
    /\ res' = [op |-> "iterall", f |-> f, items |-> iter[f].items]
    /\ UNCHANGED << tree, txn, iter, chan, head >>

\* Txn.Clone: a Tree with the current content of the transaction
Clone(x, t) ==
    /\ Open(x) /\ t \notin DOMAIN tree
    /\ tree' = (t :> [m |-> txn[x].m, ro |-> txn[x].ro]) @@ tree
    /\ res' = [op |-> "clone", x |-> x, t |-> t]
    /\ UNCHANGED << txn, iter, chan, head >>

\* Commit without notification; t = id of the new tree
Commit(x, t) ==
    /\ Open(x) /\ t \notin DOMAIN tree
    /\ tree' = (t :> [m |-> txn[x].m, ro |-> txn[x].ro]) @@ tree
    /\ txn'  = [txn EXCEPT ![x].st = "committed"]
    /\ head' = IF txn[x].lin THEN t ELSE head
    /\ chan' = IF txn[x].lin THEN AfterCommit(x) ELSE chan
    /\ res'  = [op |-> "commit", x |-> x, t |-> t]
    /\ UNCHANGED iter

\* Notify after Commit.  In the model the set C of additionally closed
\* channels is chosen freely among the permitted ones.
Notify(x, C) ==
    /\ x \in DOMAIN txn /\ txn[x].st = "committed" /\ txn[x].lin
    /\ LET ch1 == IF txn[x].dirty THEN AfterNotify(x) ELSE chan IN
       chan' = [ c \in DOMAIN ch1 |->
                   [ch1[c] EXCEPT !.closed = ch1[c].closed \/ ch1[c].must
                                             \/ (c \in C /\ ch1[c].may)] ]
    /\ txn' = [txn EXCEPT ![x].st = "done"]
    /\ res' = [op |-> "notify", x |-> x]
    /\ UNCHANGED << tree, iter, head >>

\* CommitAndNotify = Notify then Commit in the code; same abstract effect
CommitAndNotify(x, t, C) ==
    /\ Open(x) /\ t \notin DOMAIN tree /\ txn[x].lin
    /\ tree' = (t :> [m |-> txn[x].m, ro |-> txn[x].ro]) @@ tree
    /\ head' = t
    /\ LET ch1 == IF txn[x].dirty THEN AfterNotify(x) ELSE chan
              ch2 == [ c \in DOMAIN ch1 |->
                      IF ch1[c].org = x THEN [ch1[c] EXCEPT !.org = 0] ELSE ch1[c] ]
       IN chan' = [ c \in DOMAIN ch2 |->
                      [ch2[c] EXCEPT !.closed = ch2[c].closed \/ ch2[c].must
                                                \/ (c \in C /\ ch2[c].may)] ]
    /\ txn' = [txn EXCEPT ![x].st = "done"]
    /\ res' = [op |-> "commitnotify", x |-> x, t |-> t]
    /\ UNCHANGED iter

Abandon(x) ==
    /\ Open(x)
    /\ txn' = [txn EXCEPT ![x].st = "abandoned"]
    /\ chan' = AfterAbandon(x)
    /\ res' = [op |-> "abandon", x |-> x]
    /\ UNCHANGED << tree, iter, head >>

-----------------------------------------------------------------------------
\* Properties of the model

\* C12: what must be closed is closed, what is closed was allowed to close
Inv_C12_Must  == \A c \in DOMAIN chan : chan[c].must => chan[c].closed
Inv_C12_Never == \A c \in DOMAIN chan : chan[c].closed => chan[c].may
\* the root channel is exact: closed iff a notified transaction changed a key
Inv_C12_RootExact ==
    \A c \in DOMAIN chan :
        chan[c].kind = "root" /\ chan[c].live /\ chan[c].oblig => (chan[c].closed <=> chan[c].must)

\* C11: persistence -- trees and iterators never change once created
Act_C11_Persistent ==
    /\ \A t \in DOMAIN tree : tree'[t] = tree[t]
    /\ \A f \in DOMAIN iter : \/ iter'[f] = iter[f]
                              \/ /\ Len(iter[f].items) > 0
                                 /\ iter'[f].items = Tail(iter[f].items)
Prop_C11_Persistent == [][Act_C11_Persistent]_vars

\* a listing is always sorted and duplicate free
Sorted(its) == \A i \in 1..(Len(its)-1) : Less(its[i][1], its[i+1][1])
Inv_C11_Sorted ==
    /\ \A f \in DOMAIN iter : Sorted(iter[f].items)
    /\ "items" \in DOMAIN res => Sorted(res.items)

-----------------------------------------------------------------------------
\* Bounded model (design check + script generation)

Fresh(D, max) == IF Cardinality(D) < max THEN { Cardinality(D) + 1 } ELSE {}
Srcs == { [kind |-> "tree", id |-> t] : t \in DOMAIN tree }
        \cup { [kind |-> "txn", id |-> x] : x \in { y \in DOMAIN txn : txn[y].st = "open" } }
OptChan == {0} \cup Fresh(DOMAIN chan, MaxChan)
\* one open linear transaction at a time; a committed one must be notified first
LinFree == \A y \in DOMAIN txn : txn[y].lin => txn[y].st \in {"done", "abandoned"}
NoUnnotified == \A y \in DOMAIN txn : txn[y].lin => txn[y].st # "committed"
MayClose == SUBSET { c \in DOMAIN chan : chan[c].live /\ ~chan[c].closed /\ chan[c].kind # "root" }

Step ==
    \/ \E t \in Fresh(DOMAIN tree, MaxTree), ro \in BOOLEAN : tree = << >> /\ New(t, ro)
    \/ \E x \in Fresh(DOMAIN txn, MaxTxn), t \in DOMAIN tree, lin \in BOOLEAN :
          /\ lin => LinFree /\ t = head
          /\ NoUnnotified     \* "You must call Notify() before Tree.Txn()"
          /\ Begin(x, t, lin)
    \/ \E x \in DOMAIN txn, k \in Keys, v \in Vals, w \in OptChan :
          Insert(x, k, v, w) \/ Modify(x, k, v, w)
    \/ \E x \in DOMAIN txn, k \in Keys : Delete(x, k)
    \/ \E s \in Srcs, k \in Keys, w \in OptChan : Get(s, k, w)
    \/ \E s \in Srcs, w \in Fresh(DOMAIN chan, MaxChan) : RootWatch(s, w)
    \/ \E s \in Srcs, k \in Keys, f \in Fresh(DOMAIN iter, MaxIter), w \in OptChan : Prefix(s, k, f, w)
    \/ \E s \in Srcs, k \in Keys, f \in Fresh(DOMAIN iter, MaxIter) : LowerBound(s, k, f)
    \/ \E s \in Srcs, f \in Fresh(DOMAIN iter, MaxIter) : Iterate(s, f)
    \/ \E s \in Srcs : AllOf(s) \/ LenOf(s)
    \/ \E x \in DOMAIN txn, at \in 1..2, kd \in {"insert", "delete"}, k \in Keys : AllW(x, at, kd, k, 2)
    \/ \E f \in DOMAIN iter : IterNext(f) \/ IterAll(f)
    \/ \E x \in DOMAIN txn, t \in Fresh(DOMAIN tree, MaxTree) : Clone(x, t) \/ Commit(x, t)
    \/ \E x \in DOMAIN txn, C \in MayClose : Notify(x, C)
    \/ \E x \in DOMAIN txn, t \in Fresh(DOMAIN tree, MaxTree), C \in MayClose : CommitAndNotify(x, t, C)
    \/ \E x \in DOMAIN txn : Abandon(x)

Next == nops < MaxOps /\ Step /\ nops' = nops + 1

Spec == Init /\ [][Next]_vars

\* res and nops are output/bookkeeping only
View == << tree, txn, iter, chan, head >>
=============================================================================
