----------------------------- MODULE Reconciler -----------------------------
(***************************************************************************)
(* Algorithm-level model of the statedb reconciler (reconciler/            *)
(* incremental.go, retries.go, progress.go) and of its environment, used   *)
(* for design checking of C14 (liveness: convergence once failures stop),  *)
(* C15 (status write-back) and C16 (retry pacing, progress).               *)
(*                                                                         *)
(* Table: obj[k] = [live, ver, st, sid, rev, other]; del[k] = revision of  *)
(* a deletion the reconciler has not consumed yet (graveyard), 0 if none.  *)
(* The reconciler works in rounds: snapshot, process the changes after its *)
(* cursor in revision order (at most RoundSize), commit the statuses in    *)
(* one write transaction (compare-and-swap on the revision, falling back   *)
(* to "same pending id" / "still Error" when another writer changed the    *)
(* object), then process due retries and commit their statuses.  The       *)
(* environment may act between any two of these steps: user upsert/delete, *)
(* a status-only write of another writer, time.  Operation outcomes are    *)
(* chosen nondeterministically while the failure budget lasts.             *)
(* Retry delays are kept as countdowns so that the state space is finite.  *)
(***************************************************************************)
EXTENDS Integers, Sequences, FiniteSets, TLC

CONSTANTS Keys, MaxChanges, MaxFails, MaxOther, MaxRefresh, RoundSize, MinB, MaxB,
          Batch,       \* TRUE: BatchOperations (the round's changes are collected, then DeleteBatch, then UpdateBatch)
          Variant      \* "fixed" | "dropRetry" (defect Q) | "staleRetry" (defect P) | "driftOrig" (defect R)

VARIABLES obj, del, trev, nsid,      \* the table
          cur,                       \* reconciler cursor: changes up to this revision have been consumed
          phase,                     \* "idle" | "changes" | "batch" | "commit1" | "retries" | "commit2"
          snap,                      \* the round's snapshot [obj, del, trev] and, in batch mode, bq: the collected
                                     \* changes still awaiting their batch operation
          results,                   \* k -> [ver, rev, sid, ok, other] of operations of this round
          retry,                     \* k -> [left, n, rev, orig, isdel, ver, other, queued] or absent
          target,                    \* k -> ver
          nproc,                     \* operations performed in this round
          nchg, nfail, noth, nref,   \* budgets used
          prog,                      \* [rev, lw]
          attempted,                 \* ghost: k -> highest revision passed to an operation
          first                      \* ghost: k -> revision at which the current change of k was first attempted
vars == << obj, del, trev, nsid, cur, phase, snap, results, retry, target, nproc, nchg, nfail, noth, nref, prog, attempted, first >>

NoObj == [live |-> FALSE, ver |-> 0, st |-> "D", sid |-> 0, rev |-> 0, other |-> 0]
Put(f, k, v) == [x \in (DOMAIN f) \cup {k} |-> IF x = k THEN v ELSE f[x]]
Del(f, k) == [x \in (DOMAIN f) \ {k} |-> f[x]]
Min2(a, b) == IF a <= b THEN a ELSE b
\* exponential backoff in ticks, attempt n >= 1
Backoff(n) == Min2(MaxB, MinB * (2 ^ Min2(n, 4)))

Init ==
    /\ obj = [k \in Keys |-> NoObj] /\ del = [k \in Keys |-> 0] /\ trev = 0 /\ nsid = 0
    /\ cur = 0 /\ phase = "idle" /\ snap = [obj |-> obj, del |-> del, trev |-> 0, bq |-> {}]
    /\ results = << >> /\ retry = << >> /\ target = << >> /\ nproc = 0
    /\ nchg = 0 /\ nfail = 0 /\ noth = 0 /\ nref = 0 /\ prog = [rev |-> 0, lw |-> 0] /\ attempted = << >> /\ first = << >>

\* ------------------------------------------------------------- environment
\* (the content version is a parameter: the trace specification binds it to the logged one)
UserUpsertV(k, v) ==
    /\ nchg < MaxChanges
    /\ obj' = [obj EXCEPT ![k] = [live |-> TRUE, ver |-> v, st |-> "P", sid |-> nsid + 1, rev |-> trev + 1, other |-> 0]]
    /\ del' = [del EXCEPT ![k] = 0]
    /\ trev' = trev + 1 /\ nsid' = nsid + 1 /\ nchg' = nchg + 1
    /\ UNCHANGED << cur, phase, snap, results, retry, target, nproc, nfail, noth, nref, prog, attempted, first >>
UserUpsert(k) == UserUpsertV(k, nchg + 1)

UserDelete(k) ==
    /\ nchg < MaxChanges /\ obj[k].live
    /\ obj' = [obj EXCEPT ![k] = [NoObj EXCEPT !.ver = obj[k].ver]]
    /\ del' = [del EXCEPT ![k] = trev + 1]
    /\ trev' = trev + 1 /\ nchg' = nchg + 1
    /\ UNCHANGED << nsid, cur, phase, snap, results, retry, target, nproc, nfail, noth, nref, prog, attempted, first >>

\* another writer (e.g. a second reconciler storing its own status): new revision, same content, same status
OtherWrite(k) ==
    /\ noth < MaxOther /\ obj[k].live
    /\ obj' = [obj EXCEPT ![k].rev = trev + 1, ![k].other = @ + 1]
    /\ trev' = trev + 1 /\ noth' = noth + 1
    /\ UNCHANGED << del, nsid, cur, phase, snap, results, retry, target, nproc, nchg, nfail, nref, prog, attempted, first >>

\* the refresh loop: an object that has been Done for long enough is marked for another Update
RefreshMark(k) ==
    /\ nref < MaxRefresh /\ obj[k].live /\ obj[k].st = "D"
    /\ obj' = [obj EXCEPT ![k].st = "R", ![k].rev = trev + 1]
    /\ trev' = trev + 1 /\ nref' = nref + 1
    /\ UNCHANGED << del, nsid, cur, phase, snap, results, retry, target, nproc, nchg, nfail, noth, prog, attempted, first >>

\* time passes only while the reconciler waits and some queued retry is not due yet
Tick ==
    /\ phase = "idle"
    /\ \E k \in DOMAIN retry : retry[k].queued /\ retry[k].left > 0
    /\ retry' = [k \in DOMAIN retry |-> IF retry[k].queued /\ retry[k].left > 0 THEN [retry[k] EXCEPT !.left = @ - 1] ELSE retry[k]]
    /\ UNCHANGED << obj, del, trev, nsid, cur, phase, snap, results, target, nproc, nchg, nfail, noth, nref, prog, attempted, first >>

\* --------------------------------------------------------------- reconciler
\* the changes of the snapshot after the cursor: keys with their (revision, isDelete)
Pending(s, c) ==
    { << k, s.obj[k].rev, FALSE >> : k \in { x \in Keys : s.obj[x].live /\ s.obj[x].rev > c } }
    \cup { << k, s.del[k], TRUE >> : k \in { x \in Keys : s.del[x] > c } }
Work == Pending([obj |-> obj, del |-> del, trev |-> trev], cur) # {}
RetryDue == \E k \in DOMAIN retry : retry[k].queued /\ retry[k].left = 0

RoundStart ==
    /\ phase = "idle" /\ (Work \/ RetryDue)
    /\ snap' = [obj |-> obj, del |-> del, trev |-> trev, bq |-> {}]
    /\ phase' = "changes" /\ nproc' = 0 /\ results' = << >>
    /\ UNCHANGED << obj, del, trev, nsid, cur, retry, target, nchg, nfail, noth, nref, prog, attempted, first >>

\* outcome of an operation: failure only while the budget lasts
Outcomes == IF nfail < MaxFails THEN {TRUE, FALSE} ELSE {TRUE}

AddRetry(r, k, rev, orig, isdel, ver, other) ==
    LET n == (IF k \in DOMAIN r THEN r[k].n ELSE 0) + 1
        \* an item that is still remembered is the retry of the same change and keeps its original revision
        \* (defect R: it took the revision of the reconciler's own last status write)
        o == IF k \in DOMAIN r /\ Variant # "driftOrig" THEN r[k].orig ELSE orig IN
    Put(r, k, [left |-> Backoff(n), n |-> n, rev |-> rev, orig |-> o, isdel |-> isdel, ver |-> ver,
               other |-> other, queued |-> TRUE])

\* process the next change of the snapshot (in revision order).  The sub-actions take the round size and the
\* outcome as parameters so that the trace specification (trace/RecAlgTrace.tla) can bind them to logged values.
NextChange == LET P == Pending(snap, cur) IN CHOOSE x \in P : \A y \in P : x[2] <= y[2]
ChangesEnd(rs) ==
    /\ phase = "changes" /\ (Pending(snap, cur) = {} \/ nproc >= rs)
    /\ phase' = "commit1"
    /\ UNCHANGED << obj, del, trev, nsid, snap, nchg, noth, nref, prog, cur, results, retry, target, nproc, nfail, attempted, first >>
\* not pending: skipped (failures are the business of the retry queue)
ChangeSkip(rs) ==
    /\ phase = "changes" /\ Pending(snap, cur) # {} /\ nproc < rs
    /\ LET c == NextChange IN ~c[3] /\ snap.obj[c[1]].st \notin {"P", "R"} /\ cur' = c[2]
    /\ UNCHANGED << obj, del, trev, nsid, snap, nchg, noth, nref, prog, phase, results, retry, target, nproc, nfail, attempted, first >>
ChangeOp(rs, ok) ==
    /\ phase = "changes" /\ Pending(snap, cur) # {} /\ nproc < rs
    /\ LET c == NextChange
           k == c[1] IN
       /\ c[3] \/ snap.obj[k].st \in {"P", "R"}
       /\ cur' = c[2]
       /\ nfail' = IF ok THEN nfail ELSE nfail + 1
       /\ nproc' = nproc + 1
       /\ attempted' = Put(attempted, k, c[2])
       /\ first' = Put(first, k, c[2])
       /\ IF c[3]
          THEN /\ target' = IF ok THEN Del(target, k) ELSE target
               /\ retry' = IF ok THEN Del(retry, k) ELSE AddRetry(Del(retry, k), k, c[2], c[2], TRUE, 0, 0)
               /\ UNCHANGED results
          ELSE /\ target' = IF ok THEN Put(target, k, snap.obj[k].ver) ELSE target
               /\ retry' = Del(retry, k)       \* Clear: the object has changed
               /\ results' = Put(results, k, [ver |-> snap.obj[k].ver, rev |-> c[2], sid |-> snap.obj[k].sid,
                                              ok |-> ok, other |-> snap.obj[k].other])
    /\ UNCHANGED << obj, del, trev, nsid, snap, nchg, noth, nref, prog, phase >>

\* Batch mode (incremental.batch): the changes of the round are collected first -- in revision order, objects that
\* are not pending skipped, until the round is full; their retries are cleared -- then DeleteBatch is called with
\* the deletions and UpdateBatch with the rest; each entry carries its own outcome.
MinRev(P) == CHOOSE x \in P : \A y \in P : x[2] <= y[2]
RECURSIVE Collect(_, _, _, _)
Collect(P, room, taken, last) ==
    IF P = {} \/ room = 0 THEN [taken |-> taken, last |-> last]
    ELSE LET c == MinRev(P) IN
         IF ~c[3] /\ snap.obj[c[1]].st \notin {"P", "R"} THEN Collect(P \ {c}, room, taken, c[2])
         ELSE Collect(P \ {c}, room - 1, taken \cup {c}, c[2])
BatchCollect(rs) ==
    /\ phase = "changes" /\ Pending(snap, cur) # {} /\ nproc < rs
    /\ LET r == Collect(Pending(snap, cur), rs - nproc, {}, cur) IN
       /\ cur' = r.last
       /\ nproc' = nproc + Cardinality(r.taken)
       /\ retry' = [k \in (DOMAIN retry) \ { c[1] : c \in r.taken } |-> retry[k]]
       /\ snap' = [snap EXCEPT !.bq = r.taken]
    /\ phase' = "batch"
    /\ UNCHANGED << obj, del, trev, nsid, nchg, noth, nref, prog, results, target, nfail, attempted, first >>
BatchOp(c, ok) ==
    /\ phase = "batch" /\ c \in snap.bq
    /\ c[3] \/ ~\E d \in snap.bq : d[3]          \* the delete batch first
    /\ LET k == c[1] IN
       /\ nfail' = IF ok THEN nfail ELSE nfail + 1
       /\ attempted' = Put(attempted, k, c[2])
       /\ first' = Put(first, k, c[2])
       /\ IF c[3]
          THEN /\ target' = IF ok THEN Del(target, k) ELSE target
               /\ retry' = IF ok THEN retry ELSE AddRetry(retry, k, c[2], c[2], TRUE, 0, 0)
               /\ UNCHANGED results
          ELSE /\ target' = IF ok THEN Put(target, k, snap.obj[k].ver) ELSE target
               /\ UNCHANGED retry
               /\ results' = Put(results, k, [ver |-> snap.obj[k].ver, rev |-> c[2], sid |-> snap.obj[k].sid,
                                              ok |-> ok, other |-> snap.obj[k].other])
    /\ snap' = [snap EXCEPT !.bq = @ \ {c}]
    /\ UNCHANGED << obj, del, trev, nsid, nchg, noth, nref, prog, phase, cur, nproc >>
BatchEnd ==
    /\ phase = "batch" /\ snap.bq = {}
    /\ phase' = "commit1"
    /\ UNCHANGED << obj, del, trev, nsid, snap, nchg, noth, nref, prog, cur, results, retry, target, nproc, nfail, attempted, first >>

ProcessChange ==
    IF Batch THEN \/ ChangesEnd(RoundSize) \/ BatchCollect(RoundSize) \/ BatchEnd
                  \/ \E c \in snap.bq, ok \in Outcomes : BatchOp(c, ok)
    ELSE ChangesEnd(RoundSize) \/ ChangeSkip(RoundSize) \/ \E ok \in Outcomes : ChangeOp(RoundSize, ok)

\* one write transaction commits all statuses of the round
\* (the implementation ranges over a Go map: the results are written in any order, here `ord`)
RECURSIVE CommitAll(_, _, _, _, _)
CommitAll(ord, o, r, tr, sid) ==
    IF ord = << >> THEN [obj |-> o, retry |-> r, trev |-> tr, nsid |-> sid]
    ELSE LET k == Head(ord)
             res == results[k]
             cu == o[k]
             st2 == IF res.ok THEN "D" ELSE "E"
             cas == cu.live /\ cu.rev = res.rev
             samePending == cu.live /\ cu.rev # res.rev /\ cu.st = "P" /\ cu.sid = res.sid
             stillError == Variant # "dropRetry" /\ cu.live /\ cu.rev # res.rev /\ cu.st = "E"
             write == cas \/ samePending \/ stillError
             \* the compare-and-swap writes the reconciler's copy of the object, the fall-backs the current one
             other2 == IF cas THEN res.other ELSE cu.other
             o2 == IF write THEN [o EXCEPT ![k] = [cu EXCEPT !.st = st2, !.sid = sid + 1, !.rev = tr + 1, !.other = other2]] ELSE o
             tr2 == IF write THEN tr + 1 ELSE tr
             sid2 == IF write THEN sid + 1 ELSE sid
             \* the object queued for the retry: as it now is in the table (fixed) or the copy from before (defect P)
             rother == IF Variant = "staleRetry" THEN res.other ELSE other2
             r2 == IF write /\ ~res.ok THEN AddRetry(r, k, tr2, res.rev, FALSE, res.ver, rother)
                   ELSE IF res.ok THEN Del(r, k) ELSE r
         IN CommitAll(Tail(ord), o2, r2, tr2, sid2)

Orders(S) == { q \in [1..Cardinality(S) -> S] : { q[i] : i \in 1..Cardinality(S) } = S }
CommitStatusO(ord) ==
    /\ phase \in {"commit1", "commit2"}
    /\ LET c == CommitAll(ord, obj, retry, trev, nsid) IN
       /\ obj' = c.obj /\ retry' = c.retry /\ trev' = c.trev /\ nsid' = c.nsid
    /\ results' = << >>
    /\ IF phase = "commit1" THEN phase' = "retries" /\ prog' = prog
       ELSE /\ phase' = "idle"
            /\ prog' = [rev |-> IF cur > prog.rev THEN cur ELSE prog.rev,
                        lw |-> LET F == { retry'[k].orig : k \in DOMAIN retry' } IN
                               IF F = {} THEN 0 ELSE CHOOSE m \in F : \A y \in F : m <= y]
    /\ UNCHANGED << del, cur, snap, target, nproc, nchg, nfail, noth, nref, attempted, first >>
CommitStatus == \E ord \in Orders(DOMAIN results) : CommitStatusO(ord)

\* retries that are due: popped from the queue (but remembered until cleared or re-added)
DueRetries == { k \in DOMAIN retry : retry[k].queued /\ retry[k].left = 0 }
RetriesEnd(rs) ==
    /\ phase = "retries" /\ (DueRetries = {} \/ nproc >= rs)
    /\ phase' = "commit2"
    /\ UNCHANGED << obj, del, trev, nsid, cur, snap, nchg, noth, nref, prog, first, results, retry, target, nproc, nfail, attempted >>
RetryOp(rs, k, ok) ==
    /\ phase = "retries" /\ k \in DueRetries /\ nproc < rs
    /\ LET it == retry[k] IN
       /\ nfail' = IF ok THEN nfail ELSE nfail + 1
       /\ nproc' = nproc + 1
       /\ attempted' = Put(attempted, k, IF k \in DOMAIN attempted /\ attempted[k] > it.rev THEN attempted[k] ELSE it.rev)
       /\ IF it.isdel
          THEN /\ target' = IF ok THEN Del(target, k) ELSE target
               /\ retry' = IF ok THEN Del(retry, k) ELSE AddRetry(retry, k, it.rev, it.rev, TRUE, 0, 0)
               /\ UNCHANGED results
          ELSE /\ target' = IF ok THEN Put(target, k, it.ver) ELSE target
               /\ retry' = [retry EXCEPT ![k].queued = FALSE]
               /\ results' = Put(results, k, [ver |-> it.ver, rev |-> it.rev, sid |-> 0 - 1, ok |-> ok, other |-> it.other])
    /\ UNCHANGED << obj, del, trev, nsid, cur, snap, nchg, noth, nref, prog, first, phase >>
ProcessRetry == RetriesEnd(RoundSize) \/ \E k \in DOMAIN retry, ok \in Outcomes : RetryOp(RoundSize, k, ok)

Env == \E k \in Keys : UserUpsert(k) \/ UserDelete(k) \/ OtherWrite(k) \/ RefreshMark(k)
Rec == RoundStart \/ ProcessChange \/ CommitStatus \/ ProcessRetry
Next == Env \/ Rec \/ Tick
Spec == Init /\ [][Next]_vars
FairSpec == Spec /\ WF_vars(Rec) /\ WF_vars(Tick)

-----------------------------------------------------------------------------
\* C15: the reconciler never re-creates a deleted object and never changes the content version;
\* and it never undoes what another writer stored (field `other` only grows)
Act_C15_StatusOnly ==
    CommitStatus =>
        \A k \in Keys : /\ obj'[k].live = obj[k].live
                        /\ obj'[k].ver = obj[k].ver
                        /\ obj'[k].other = obj[k].other
Prop_C15_StatusOnly == [][Act_C15_StatusOnly]_vars

\* C15: Done only for a version whose Update succeeded with exactly that version
Inv_C15_DoneMeansTarget ==
    \A k \in Keys : obj[k].live /\ obj[k].st = "D" /\ obj[k].ver > 0 => (k \in DOMAIN target /\ target[k] = obj[k].ver)

\* C16: a failed object waits at least MinB and at most MaxB ticks
Inv_C16_Backoff == \A k \in DOMAIN retry : retry[k].left <= MaxB /\ (retry[k].left = Backoff(retry[k].n) => retry[k].left >= MinB)

\* C16: progress never runs ahead of what was attempted
Inv_C16_Progress == prog.rev <= cur

\* C16: the retry queue remembers a failing change under the revision at which it was first attempted, whatever
\* the number of retries, and the watermark published after a round is the oldest of them; hence the documented
\* loop "until prog.rev >= R and (prog.lw = 0 or prog.lw > R)" never takes a failing change <= R for reconciled
Inv_C16_LowWatermark ==
    /\ \A k \in DOMAIN retry : k \in DOMAIN first /\ retry[k].orig = first[k]
    /\ phase = "idle" =>
          \A k \in Keys : obj[k].live /\ obj[k].st = "E" =>
                (k \in DOMAIN retry /\ prog.lw # 0 /\ prog.lw <= first[k])

\* C14: once the budgets are used up the system converges and stays converged
Quiet == nchg = MaxChanges /\ nfail = MaxFails /\ noth = MaxOther /\ nref = MaxRefresh
Converged ==
    /\ \A k \in Keys : obj[k].live => (obj[k].st = "D" /\ k \in DOMAIN target /\ target[k] = obj[k].ver)
    /\ \A k \in Keys : ~obj[k].live => k \notin DOMAIN target
\* (budgets may also never be used up: then nothing is claimed)
Live_C14 == <>[](Quiet => Converged)
Live_C14b == []<>(Quiet => Converged)
=============================================================================
