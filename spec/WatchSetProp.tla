---------------------------- MODULE WatchSetProp ----------------------------
(***************************************************************************)
(* statedb.WatchSet.Wait as a timed state machine (C20).                   *)
(* A scenario fixes, for every channel, whether it is a member of the set  *)
(* and when it is closed (Never = not at all), when the context ends and   *)
(* how (cancel / deadline), the settle time and the time of the call.      *)
(* The machine below is shaped like the code: wait for the first closed    *)
(* member (or the context), then, if settle > 0, keep collecting until the *)
(* settle timer or the context fires.  Simultaneous events are resolved    *)
(* nondeterministically (reflect.Select picks any ready case).             *)
(* Outcome(...) is the property itself, stated on call/return values; TLC  *)
(* checks that every return of the machine satisfies it, and the trace     *)
(* specification evaluates the same predicate on returns of the real code. *)
(***************************************************************************)
EXTENDS Integers, FiniteSets, Sequences, TLC

Never == 1000000

Min(S) == CHOOSE x \in S : \A y \in S : x <= y
Max2(a, b) == IF a >= b THEN a ELSE b
Min2(a, b) == IF a <= b THEN a ELSE b

\* members: set of ids; closeAt: function id -> time; tc: time the context ends (Never = never)
ClosedBy(members, closeAt, t) == { c \in members : closeAt[c] <= t }
FirstClose(members, closeAt, t0) ==
    IF members = {} THEN Never ELSE Max2(t0, Min({ closeAt[c] : c \in members }))

\* The property (C20) for one call of Wait at t0 returning (ret, err) at t1, has = membership afterwards
Outcome(all, members, closeAt, tc, kind, settle, t0, t1, ret, err, has) ==
    LET tf == FirstClose(members, closeAt, t0)
        tcx == IF tc = Never THEN Never ELSE Max2(t0, tc)
        upper == Min2(IF tf = Never THEN Never ELSE tf + settle, tcx)
    IN
    [ onlyClosedMembers |-> ret \subseteq ClosedBy(members, closeAt, t1),
      removesExactly    |-> \A c \in all : has[c] = (c \in members \ ret),
      noEmptyResult     |-> (ret = {}) => (tc # Never /\ tc <= t1 /\ err # ""),
      ctxError          |-> (err # "") => (tc # Never /\ tc <= t1 /\ err = kind),
      inTime            |-> t1 <= upper /\ t1 >= t0 ]

OutcomeOK(o) == o.onlyClosedMembers /\ o.removesExactly /\ o.noEmptyResult /\ o.ctxError /\ o.inTime
FirstBad(o) ==
    IF ~o.onlyClosedMembers THEN "C20_OnlyClosedMembers"
    ELSE IF ~o.removesExactly THEN "C20_RemovesExactlyReturned"
    ELSE IF ~o.noEmptyResult THEN "C20_NoEmptyResultUnlessCtx"
    ELSE IF ~o.ctxError THEN "C20_CtxError"
    ELSE IF ~o.inTime THEN "C20_ReturnsInTime"
    ELSE "ok"

=============================================================================
