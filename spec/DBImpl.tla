------------------------------- MODULE DBImpl -------------------------------
(***************************************************************************)
(* The commit/lock protocol of statedb at the granularity of its critical  *)
(* sections (db.go WriteTxn, write_txn.go Commit/Abort, registerTable):    *)
(* one action per section, named after the verif hook ("gate") that ends   *)
(* it (DESIGN Appendix B).  Table contents are abstracted to the sequence  *)
(* of transactions committed to each table.                                *)
(*                                                                         *)
(*   pc[a]      gate actor a is parked at                                  *)
(*   lk[t]      holder of the table mutex of t (0 = free)                  *)
(*   rootmu     holder of the root mutex (0 = free)                        *)
(*   root       the published root: t -> sequence of committed actor ids   *)
(*   txr[a]     a's private copy of the root (its tableEntries)            *)
(*   nreg       number of registered tables (the registrar adds one)       *)
(*   notified   actors whose commit has closed the watch channels          *)
(* Mutant selects a deliberately broken variant (self-test of the          *)
(* invariants, thorough tier).                                             *)
(***************************************************************************)
EXTENDS Naturals, Sequences, FiniteSets, TLC

CONSTANTS Writers,      \* set of writer actor ids (naturals > 0)
          Req,          \* Req[a]: sequence of tables as requested (any order, duplicates allowed)
          Aborting,     \* writers that abort instead of committing
          NT,           \* tables registered initially (1..NT)
          Registrar,    \* actor id of the registrar (0 = none); registers table NT+1, then writes it
          Collector,    \* actor id of the graveyard collector (0 = none): scans the published root without any
                        \* lock, picks the tables it has something to remove from (any non-empty subset of the
                        \* registered tables) and runs an ordinary write transaction over them (one pass).
                        \* Closing a change iterator is an ordinary single-table write transaction (a Writer).
          Mutant

VARIABLES pc, lk, rootmu, root, txr, nreg, notified, hist,
          gcreq, gcpass     \* tables of the collector's current pass; passes started
vars == << pc, lk, rootmu, root, txr, nreg, notified, hist, gcreq, gcpass >>

Actors == Writers \cup (IF Registrar = 0 THEN {} ELSE {Registrar}) \cup (IF Collector = 0 THEN {} ELSE {Collector})
MaxT == NT + 1
TabsOf(a) == IF a = Registrar THEN {NT + 1}
             ELSE IF a = Collector THEN gcreq
             ELSE { Req[a][i] : i \in 1..Len(Req[a]) }
Held(a) == { t \in 1..MaxT : lk[t] = a }
\* next mutex to take: ascending order (the sorted lock order); the mutant takes them as requested
NextLock(a) ==
    LET rest == TabsOf(a) \ Held(a) IN
    IF rest = {} THEN 0
    ELSE IF Mutant = "unsortedLocks" /\ a # Registrar /\ a # Collector
         THEN Req[a][CHOOSE i \in 1..Len(Req[a]) : Req[a][i] \in rest /\ \A j \in 1..(i - 1) : Req[a][j] \notin rest]
         ELSE CHOOSE t \in rest : \A u \in rest : t <= u

Init ==
    /\ pc = [a \in Actors |-> IF a = Registrar THEN "reg.start" ELSE IF a = Collector THEN "gc.idle" ELSE "start"]
    /\ gcreq = {} /\ gcpass = 0
    /\ lk = [t \in 1..MaxT |-> 0]
    /\ rootmu = 0
    /\ root = [t \in 1..NT |-> << >>]
    /\ txr = [a \in Actors |-> << >>]
    /\ nreg = NT
    /\ notified = {}
    /\ hist = << >>

Go(a, to) == pc' = [pc EXCEPT ![a] = to] /\ hist' = Append(hist, a)
RECURSIVE SetMask(_)
SetMask(S) == IF S = {} THEN 0 ELSE LET t == CHOOSE x \in S : TRUE IN 2 ^ (t - 1) + SetMask(S \ {t})

\* ---- WriteTxn
WBegin(a) ==       \* -> wtxn.begin
    /\ pc[a] = "start"
    /\ Go(a, "wtxn.begin")
    /\ txr' = IF Mutant = "loadBeforeLock" THEN [txr EXCEPT ![a] = root] ELSE txr
    /\ UNCHANGED << lk, rootmu, root, nreg, notified, gcreq, gcpass >>

WLockNext(a) ==    \* one mutex per step -> smu.acquired ... -> wtxn.locked
    /\ pc[a] \in {"wtxn.begin", "smu.acquired"}
    /\ LET t == NextLock(a) IN
       IF t = 0 THEN Go(a, "wtxn.locked") /\ UNCHANGED lk
       ELSE lk[t] = 0 /\ lk' = [lk EXCEPT ![t] = a] /\ Go(a, "smu.acquired")
    /\ UNCHANGED << rootmu, root, txr, nreg, notified, gcreq, gcpass >>

WLoadRoot(a) ==    \* -> wtxn.rootloaded
    /\ pc[a] = "wtxn.locked"
    /\ txr' = IF Mutant = "loadBeforeLock" THEN txr ELSE [txr EXCEPT ![a] = root]
    /\ Go(a, "wtxn.rootloaded")
    /\ UNCHANGED << lk, rootmu, root, nreg, notified, gcreq, gcpass >>

\* the operations: append own id to the private copy of every table held
WWork(a) ==        \* -> commit.begin / abort.begin
    /\ pc[a] = "wtxn.rootloaded"
    /\ txr' = [txr EXCEPT ![a] = [t \in DOMAIN txr[a] |-> IF t \in TabsOf(a) THEN Append(txr[a][t], a) ELSE txr[a][t]]]
    /\ Go(a, IF a \in Aborting THEN "abort.begin" ELSE "commit.begin")
    /\ UNCHANGED << lk, rootmu, root, nreg, notified, gcreq, gcpass >>

\* ---- Commit
CIndex(a) ==       \* -> commit.indexes
    /\ pc[a] = "commit.begin" /\ Go(a, "commit.indexes")
    /\ notified' = IF Mutant = "notifyBeforeStore" THEN notified \cup {a} ELSE notified
    /\ lk' = IF Mutant = "unlockBeforeStore" THEN [t \in 1..MaxT |-> IF lk[t] = a THEN 0 ELSE lk[t]] ELSE lk
    /\ UNCHANGED << rootmu, root, txr, nreg, gcreq, gcpass >>

CRootLock(a) ==    \* -> commit.rootlocked
    /\ pc[a] = "commit.indexes" /\ rootmu = 0
    /\ rootmu' = a /\ Go(a, "commit.rootlocked")
    /\ UNCHANGED << lk, root, txr, nreg, notified, gcreq, gcpass >>

\* build the new root: own tables from the private copy, every other table (and tables registered
\* meanwhile) from the CURRENT root
\* the new root is assembled (and whatever else the implementation does inside the root section before the store)
CBuild(a) ==       \* -> commit.rootbuilt
    /\ pc[a] = "commit.rootlocked" /\ Go(a, "commit.rootbuilt")
    /\ UNCHANGED << lk, rootmu, root, txr, nreg, notified, gcreq, gcpass >>

CStore(a) ==       \* -> commit.stored
    /\ pc[a] = "commit.rootbuilt"
    /\ root' = [t \in (IF Mutant = "regDropped" THEN DOMAIN txr[a] ELSE DOMAIN root) |->
                   IF t \in TabsOf(a) THEN txr[a][t]
                   ELSE IF Mutant = "mergeFromBase" /\ t \in DOMAIN txr[a] THEN txr[a][t]
                   ELSE root[t]]
    /\ Go(a, "commit.stored")
    /\ UNCHANGED << lk, rootmu, txr, nreg, notified, gcreq, gcpass >>

CRootUnlock(a) ==  \* -> commit.rootunlocked
    /\ pc[a] = "commit.stored" /\ rootmu' = 0 /\ Go(a, "commit.rootunlocked")
    /\ UNCHANGED << lk, root, txr, nreg, notified, gcreq, gcpass >>

CNotify(a) ==      \* -> commit.notified
    /\ pc[a] = "commit.rootunlocked" /\ notified' = notified \cup {a} /\ Go(a, "commit.notified")
    /\ UNCHANGED << lk, rootmu, root, txr, nreg, gcreq, gcpass >>

CTablesUnlock(a) ==   \* -> commit.tablesunlocked
    /\ pc[a] = "commit.notified"
    /\ lk' = [t \in 1..MaxT |-> IF lk[t] = a THEN 0 ELSE lk[t]]
    /\ Go(a, "commit.tablesunlocked")
    /\ UNCHANGED << rootmu, root, txr, nreg, notified, gcreq, gcpass >>

CInitClose(a) == pc[a] = "commit.tablesunlocked" /\ Go(a, "commit.initclosed") /\ UNCHANGED << lk, rootmu, root, txr, nreg, notified, gcreq, gcpass >>
CReturn(a)    == pc[a] = "commit.initclosed" /\ Go(a, "done") /\ UNCHANGED << lk, rootmu, root, txr, nreg, notified, gcreq, gcpass >>

\* ---- Abort
AUnlock(a) ==      \* -> abort.unlocked
    /\ pc[a] = "abort.begin"
    /\ lk' = [t \in 1..MaxT |-> IF lk[t] = a THEN 0 ELSE lk[t]]
    /\ Go(a, "abort.unlocked")
    /\ UNCHANGED << rootmu, root, txr, nreg, notified, gcreq, gcpass >>
AReturn(a) == pc[a] = "abort.unlocked" /\ Go(a, "done") /\ UNCHANGED << lk, rootmu, root, txr, nreg, notified, gcreq, gcpass >>

\* ---- registerTable, then an ordinary write transaction on the new table
RegLock(a) ==      \* -> register.locked
    /\ a = Registrar /\ pc[a] = "reg.start" /\ rootmu = 0
    /\ rootmu' = a /\ Go(a, "register.locked")
    /\ UNCHANGED << lk, root, txr, nreg, notified, gcreq, gcpass >>
RegStore(a) ==     \* -> register.stored
    /\ a = Registrar /\ pc[a] = "register.locked"
    /\ root' = (NT + 1 :> << >>) @@ root /\ nreg' = NT + 1
    /\ Go(a, "register.stored")
    /\ UNCHANGED << lk, rootmu, txr, notified, gcreq, gcpass >>
RegUnlock(a) ==    \* NewTable returns; the registrar now starts a write transaction
    /\ a = Registrar /\ pc[a] = "register.stored"
    /\ rootmu' = 0 /\ Go(a, "start")
    /\ UNCHANGED << lk, root, txr, nreg, notified, gcreq, gcpass >>

\* ---- graveyard collector: lock-free scan of the published root, then a write transaction over the tables chosen
GScan(a) ==        \* -> gc.scanned (= "start" of its write transaction)
    /\ a = Collector /\ pc[a] = "gc.idle"
    /\ \E S \in (SUBSET DOMAIN root) \ {{}} :
          /\ gcreq' = S
          \* in the schedule the scan is written as 10 * actor + bit mask of the chosen tables
          /\ hist' = Append(hist, 10 * a + SetMask(S))
    /\ gcpass' = gcpass + 1
    /\ pc' = [pc EXCEPT ![a] = "start"]
    /\ UNCHANGED << lk, rootmu, root, txr, nreg, notified >>

StepOf(a) ==
    \/ GScan(a)
    \/ WBegin(a) \/ WLockNext(a) \/ WLoadRoot(a) \/ WWork(a)
    \/ CIndex(a) \/ CRootLock(a) \/ CBuild(a) \/ CStore(a) \/ CRootUnlock(a) \/ CNotify(a) \/ CTablesUnlock(a)
    \/ CInitClose(a) \/ CReturn(a) \/ AUnlock(a) \/ AReturn(a)
    \/ RegLock(a) \/ RegStore(a) \/ RegUnlock(a)

AllDone == \A a \in Actors : pc[a] = "done"
Terminated == AllDone /\ UNCHANGED vars
Next == (\E a \in Actors : StepOf(a)) \/ Terminated
Spec == Init /\ [][Next]_vars
FairSpec == Spec /\ \A a \in Actors : WF_vars(StepOf(a))

-----------------------------------------------------------------------------
Committers == Actors \ Aborting
InSeq(a, s) == \E i \in 1..Len(s) : s[i] = a
Stored(a) == pc[a] \in {"commit.stored", "commit.rootunlocked", "commit.notified", "commit.tablesunlocked",
                        "commit.initclosed", "done"} /\ a \in Committers

\* C02: a reader that loads the root in ANY state sees all of a transaction or nothing of it
Inv_C02_Atomic ==
    \A a \in Actors : \/ \A t \in TabsOf(a) \cap DOMAIN root : InSeq(a, root[t])
                      \/ \A t \in TabsOf(a) \cap DOMAIN root : ~InSeq(a, root[t])
\* ... and nothing of an aborted or unfinished one
Inv_C02_NoTrace ==
    \A a \in Actors, t \in DOMAIN root : InSeq(a, root[t]) => Stored(a)
\* C05: no committed write is ever lost
Inv_C05_NoLost ==
    \A a \in Actors : Stored(a) => \A t \in TabsOf(a) : t \in DOMAIN root /\ InSeq(a, root[t])
\* C05: registered tables never disappear
Inv_C05_RegKept == \A t \in 1..nreg : t \in DOMAIN root
\* C05: writers of a table are serialised (holding period = from locked to store/abort)
Working(a) == pc[a] \in {"wtxn.locked", "wtxn.rootloaded", "commit.begin", "commit.indexes", "commit.rootlocked", "commit.rootbuilt", "abort.begin"}
Inv_C05_Serial ==
    \A a, b \in Actors : a # b /\ Working(a) /\ Working(b) => TabsOf(a) \cap TabsOf(b) = {}
\* C05: a transaction works on the newest committed state of its tables
Inv_C05_SeesEarlier ==
    \A a \in Actors : pc[a] \in {"wtxn.rootloaded"} => \A t \in TabsOf(a) : txr[a][t] = root[t]
\* C06: channels are closed only after the root was published
Inv_C06_NotifyAfterStore == \A a \in notified : Stored(a)
\* C10: an actor parked at a lock acquisition whose tables are all free is enabled (no phantom blocking)
Inv_C10_Independent ==
    \A a \in Actors : pc[a] \in {"wtxn.begin", "smu.acquired"} /\ (\A t \in TabsOf(a) : lk[t] \in {0, a})
        => ENABLED WLockNext(a)
\* C10 liveness: every transaction finishes (checked under FairSpec)
Live_C10_AllDone == <>AllDone
\* no write lost, stated as an action property: committed sequences only grow
Act_C05_Grow == \A t \in DOMAIN root : t \in DOMAIN root' /\ Len(root'[t]) >= Len(root[t])
                    /\ SubSeq(root'[t], 1, Len(root[t])) = root[t]
Prop_C05_Grow == [][Act_C05_Grow]_vars

View == << pc, lk, rootmu, root, txr, nreg, notified, gcreq, gcpass >>
=============================================================================
