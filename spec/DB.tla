--------------------------------- MODULE DB ---------------------------------
(***************************************************************************)
(* The statedb database as seen through its public API by one goroutine    *)
(* (the sequential driver drv_db): tables, write transactions with private *)
(* working copies, atomic publish at Commit, frozen snapshots, watch        *)
(* channels, change iterators with the graveyard, table initializers       *)
(* and table registration, plus the two features of the library that run   *)
(* goroutines of their own on top of change iterators: Observable (a       *)
(* stream of changes) and Derive (a table kept as the image of another     *)
(* one).  The interleaving of several goroutines is the subject of         *)
(* DBImpl.tla, the marking/collection algorithm behind the iterators that  *)
(* of Graveyard.tla; here every action is one API call (or one round of a  *)
(* library goroutine observed at quiescence).                              *)
(*                                                                         *)
(*  root       t -> Table value            the committed database          *)
(*  wtx[x]     [tabs, work, base, st]      write transactions              *)
(*  snap[s]    t -> Table value            retained read snapshots         *)
(*  chan[c]    watch channels handed out and their obligations             *)
(*  iter[i]    change iterators (cursor, replay of everything delivered)   *)
(*  res        reply of the last call                                      *)
(***************************************************************************)
EXTENDS Table

CONSTANTS Pks, ObjVals, MaxWtx, MaxSnap, MaxChan, MaxIter, MaxOps, NTables

VARIABLES root, wtx, snap, chan, iter, res, nops
vars == << root, wtx, snap, chan, iter, res, nops >>

Tables == DOMAIN root

Init ==
    /\ root = << >> /\ wtx = << >> /\ snap = << >> /\ chan = << >> /\ iter = << >>
    /\ res = [op |-> "none"] /\ nops = 0

\* ---------------------------------------------------------------- sources
IsSnap(s)  == s.kind = "snap"
WOpen(x)   == x \in DOMAIN wtx /\ wtx[x].st = "open"
SrcOk(s)   == IF IsSnap(s) THEN s.id \in DOMAIN snap ELSE WOpen(s.id)
\* the table as a source sees it (a write transaction reads its own writes)
SrcTab(s, t) ==
    IF IsSnap(s) THEN snap[s.id][t]
    ELSE IF t \in wtx[s.id].tabs THEN wtx[s.id].work[t] ELSE wtx[s.id].base[t]
SrcHas(s, t) == IF IsSnap(s) THEN t \in DOMAIN snap[s.id] ELSE t \in DOMAIN wtx[s.id].base
\* the *committed* table behind a source (what change iterators read)
SrcCommitted(s, t) == IF IsSnap(s) THEN snap[s.id][t] ELSE wtx[s.id].base[t]

\* ---------------------------------------------------------------- tables
RegisterTable(t) ==
    /\ t \notin Tables
    /\ root' = (t :> EmptyTable) @@ root
    /\ res' = [op |-> "newtable", t |-> t]
    /\ UNCHANGED << wtx, snap, chan, iter >>

\* ------------------------------------------------------ write transactions
WriteTxn(x, tabs) ==
    /\ x \notin DOMAIN wtx
    /\ Range(tabs) \subseteq Tables
    /\ \A y \in DOMAIN wtx : wtx[y].st = "open" => wtx[y].tabs \cap Range(tabs) = {}  \* else it would block
    /\ wtx' = (x :> [tabs |-> Range(tabs), work |-> [t \in Range(tabs) |-> root[t]], base |-> root,
                     st |-> "open",      \* "open" -> "published" (visible to readers) -> "done" (Commit returned)
                     pub |-> << >>,      \* the root right after this transaction was published
                     \* tables on which a compare-and-* operation of this transaction was rejected
                     rej |-> {}]) @@ wtx
    /\ res' = [op |-> "wtxn", tx |-> x, tables |-> tabs]
    /\ UNCHANGED << root, snap, chan, iter >>

ErrOf(x, t) == IF ~WOpen(x) THEN "Closed" ELSE IF t \notin wtx[x].tabs THEN "NotLocked" ELSE ""

\* kind in {"insert","modify","cas","delete","cad"}; w = id of the InsertWatch channel or 0
Write(kind, x, t, o, g, w, wc) ==
    /\ x \in DOMAIN wtx /\ t \in DOMAIN wtx[x].base
    /\ LET err == ErrOf(x, t) IN
       IF err # ""
       THEN /\ res' = [op |-> kind, tx |-> x, t |-> t, obj |-> o, guard |-> g, w |-> w,
                       had |-> FALSE, old |-> NoRow, err |-> err]
            /\ UNCHANGED << wtx, chan >>
       ELSE LET ts == wtx[x].work[t]
                r  == CASE kind = "insert" -> TInsert(ts, o)
                        [] kind = "modify" -> TModify(ts, o)
                        [] kind = "cas"    -> TCas(ts, o, g)
                        [] kind = "delete" -> TDelete(ts, o)
                        [] kind = "cad"    -> TCad(ts, o, g)
            IN /\ wtx' = [wtx EXCEPT ![x].work[t] = r.ts,
                                      ![x].rej = IF r.err \in {"NotFound", "RevNotEqual"} THEN @ \cup {t} ELSE @]
               /\ res' = [op |-> kind, tx |-> x, t |-> t, obj |-> o, guard |-> g, w |-> w,
                          had |-> r.had, old |-> r.old, err |-> r.err]
               /\ chan' = IF w = 0 THEN chan
                          ELSE (w :> [kind |-> "insert", t |-> t, idx |-> "id", q |-> "get", key |-> o.pk,
                                      res0 |-> << >>, rev0 |-> r.ts.rev, tx |-> x, live |-> FALSE,
                                      must |-> FALSE, by |-> 0, closed |-> wc]) @@ chan
    /\ UNCHANGED << root, snap, iter >>

DeleteAll(x, t) ==
    /\ x \in DOMAIN wtx /\ t \in DOMAIN wtx[x].base
    /\ LET err == ErrOf(x, t) IN
       IF err # "" THEN res' = [op |-> "deleteall", tx |-> x, t |-> t, err |-> err] /\ UNCHANGED wtx
       ELSE /\ wtx' = [wtx EXCEPT ![x].work[t] = TDeleteAll(@).ts]
            /\ res' = [op |-> "deleteall", tx |-> x, t |-> t, err |-> ""]
    /\ UNCHANGED << root, snap, chan, iter >>

\* ------------------------------------------------------------- snapshots
ReadTxn(s) ==
    /\ s \notin DOMAIN snap
    /\ snap' = (s :> root) @@ snap
    /\ res' = [op |-> "snap", id |-> s]
    /\ UNCHANGED << root, wtx, chan, iter >>

\* a query; w = id under which the returned watch channel is tracked, 0 = not tracked
QueryOp(s, t, idx, q, key, w, wc) ==
    /\ SrcOk(s) /\ SrcHas(s, t)
    /\ LET ts == SrcTab(s, t)
           rows == Query(ts, idx, q, key) IN
       /\ res' = [op |-> "query", src |-> s, t |-> t, index |-> idx, q |-> q, key |-> key, w |-> w,
                  rows |-> rows, dom |-> QueryInDomain(ts, idx, q, key)]
       /\ chan' = IF w = 0 THEN chan
                  ELSE (w :> [kind |-> "query", t |-> t, idx |-> idx, q |-> q, key |-> key,
                              res0 |-> rows, rev0 |-> ts.rev, tx |-> 0, live |-> IsSnap(s),
                              must |-> FALSE, by |-> 0, closed |-> wc]) @@ chan
    /\ UNCHANGED << root, wtx, snap, iter >>

\* NumObjects / Revision
Scalar(s, t, what) ==
    /\ SrcOk(s) /\ SrcHas(s, t)
    /\ res' = [op |-> what, src |-> s, t |-> t,
               n |-> IF what = "num" THEN NumObjects(SrcTab(s, t)) ELSE SrcTab(s, t).rev]
    /\ UNCHANGED << root, wtx, snap, chan, iter >>

\* --------------------------------------------------------- initializers
RegInit(x, t, name) ==
    /\ WOpen(x) /\ t \in wtx[x].tabs
    /\ wtx' = [wtx EXCEPT ![x].work[t].pend = Append(@, name)]
    /\ res' = [op |-> "reginit", tx |-> x, t |-> t, name |-> name]
    /\ UNCHANGED << root, snap, chan, iter >>

MarkDone(x, t, name) ==
    /\ WOpen(x) /\ t \in wtx[x].tabs
    /\ wtx' = [wtx EXCEPT ![x].work[t].pend = SelectSeq(@, LAMBDA n : n # name)]
    /\ res' = [op |-> "markdone", tx |-> x, t |-> t, name |-> name]
    /\ UNCHANGED << root, snap, chan, iter >>

InitQuery(s, t, w, wc) ==
    /\ SrcOk(s) /\ SrcHas(s, t)
    /\ LET ts == SrcTab(s, t) IN
       /\ res' = [op |-> "init", src |-> s, t |-> t, w |-> w, initialized |-> ts.pend = << >>, pending |-> ts.pend]
       /\ chan' = IF w = 0 THEN chan
                  ELSE (w :> [kind |-> "init", t |-> t, idx |-> "", q |-> "", key |-> << >>, res0 |-> << >>,
                              rev0 |-> 0, tx |-> 0, live |-> IsSnap(s),
                              \* may it be closed?  only once an initialized committed state exists
                              must |-> FALSE, by |-> 0, closed |-> wc,
                              sawInit |-> (ts.pend = << >>) \/ (root[t].pend = << >>)]) @@ chan
    /\ UNCHANGED << root, wtx, snap, iter >>

\* ------------------------------------------------------ change iterators
Changes(x, t, i) ==
    /\ x \in DOMAIN wtx /\ i \notin DOMAIN iter /\ t \in DOMAIN wtx[x].base
    /\ LET err == ErrOf(x, t) IN
       IF err # "" THEN res' = [op |-> "changes", tx |-> x, t |-> t, it |-> i, err |-> err] /\ UNCHANGED << wtx, iter >>
       ELSE /\ wtx' = [wtx EXCEPT ![x].work[t].trk = @ \cup {i}]
            \* wrev: the table revision of the source of the last re-query; the watch channel the iterator keeps
            \* belongs to that version of the revision index
            /\ iter' = (i :> [t |-> t, crev |-> wtx[x].work[t].rev, tx |-> x, st |-> "pending",
                              last |-> 0, mark |-> wtx[x].work[t].rev, replay |-> << >>, dels |-> {},
                              wrev |-> wtx[x].work[t].rev]) @@ iter
            /\ res' = [op |-> "changes", tx |-> x, t |-> t, it |-> i, err |-> ""]
    /\ UNCHANGED << root, snap, chan >>

\* statedb.Observable(db, table).Observe: the library itself creates the iterator in a committed transaction of its
\* own (no write: revisions and channels are untouched) and then calls Next with a fresh snapshot whenever the
\* returned channel closes; each batch it pushes to the subscriber is an IterNext of this iterator
ObserveStart(i, t) ==
    /\ i \notin DOMAIN iter /\ t \in Tables
    /\ \A y \in DOMAIN wtx : wtx[y].st = "open" => t \notin wtx[y].tabs
    /\ root' = [root EXCEPT ![t].trk = @ \cup {i}]
    /\ iter' = (i :> [t |-> t, crev |-> root[t].rev, tx |-> 0, st |-> "open",
                      last |-> 0, mark |-> root[t].rev, replay |-> << >>, dels |-> {}, wrev |-> root[t].rev]) @@ iter
    /\ res' = [op |-> "observe", it |-> i, t |-> t]
    /\ UNCHANGED << wtx, snap, chan >>

\* replay one delivered change <<pk, val, rev, del>> into a sorted row sequence
RowPos(rows, pk) == Cardinality({ j \in 1..Len(rows) : Less(rows[j][1], pk) }) + 1
ReplayOne(rows, c) ==
    LET p == RowPos(rows, c[1])
        has == p <= Len(rows) /\ rows[p][1] = c[1] IN
    IF c[4] THEN (IF has THEN SubSeq(rows, 1, p - 1) \o SubSeq(rows, p + 1, Len(rows)) ELSE rows)
    ELSE IF has THEN [rows EXCEPT ![p] = << c[1], c[2], c[3] >>]
    ELSE SubSeq(rows, 1, p - 1) \o << << c[1], c[2], c[3] >> >> \o SubSeq(rows, p, Len(rows))
RECURSIVE ReplayAll(_, _)
ReplayAll(rows, cs) == IF cs = << >> THEN rows ELSE ReplayAll(ReplayOne(rows, Head(cs)), Tail(cs))

MaxOf(S, d) == IF S = {} THEN d ELSE CHOOSE m \in S : \A y \in S : y <= m

\* Next(src): the implementation delivered the changes cs (in order; <<pk,val,rev,del>>) and
\* returned a closed (cw) or an open watch channel; w tracks the open one
IterNext(i, s, cs, cw, ex, w) ==
    /\ i \in DOMAIN iter /\ iter[i].st = "open" /\ SrcOk(s) /\ SrcHas(s, iter[i].t)
    /\ LET it == iter[i]
           revs == { cs[j][3] : j \in 1..Len(cs) }
           drevs == { cs[j][3] : j \in { k \in 1..Len(cs) : cs[k][4] } } IN
       /\ iter' = [iter EXCEPT ![i].replay = ReplayAll(it.replay, cs),
                               \* a closed channel is returned exactly when the iterator re-queried with s
                               ![i].wrev = IF cw THEN SrcCommitted(s, it.t).rev ELSE @,
                               ![i].last = MaxOf(revs, it.last),
                               ![i].mark = MaxOf(drevs \cup {it.mark}, it.mark),
                               ![i].dels = @ \cup { << cs[j][1], cs[j][3] >> : j \in { k \in 1..Len(cs) : cs[k][4] } }]
       /\ res' = [op |-> "next", it |-> i, src |-> s, cw |-> cw, ex |-> ex, w |-> w, n |-> Len(cs)]
       \* the open channel handed out is the one kept since the last re-query: if the committed table has moved on
       \* since (possible only while the commit that moved it is still between its publish and its return) the
       \* channel must close by the time that commit returns
       /\ chan' = IF w = 0 THEN chan
                  ELSE LET inflight == { y \in DOMAIN wtx : wtx[y].st = "published" /\ it.t \in wtx[y].tabs } IN
                       (w :> [kind |-> "query", t |-> it.t, idx |-> "rev", q |-> "all", key |-> << >>,
                              res0 |-> << >>, rev0 |-> it.wrev, tx |-> 0, live |-> TRUE,
                              must |-> (root[it.t].rev # it.wrev),
                              by |-> IF inflight = {} THEN 0 ELSE CHOOSE y \in inflight : TRUE,
                              closed |-> FALSE]) @@ chan
    /\ UNCHANGED << root, wtx, snap >>

\* Close() is a write transaction of its own that unregisters the tracker
IterClose(i) ==
    /\ i \in DOMAIN iter /\ iter[i].st \in {"open", "dead"}
    /\ \A y \in DOMAIN wtx : wtx[y].st = "open" => iter[i].t \notin wtx[y].tabs
    /\ iter' = [iter EXCEPT ![i].st = "closed"]
    /\ root' = [root EXCEPT ![iter[i].t].trk = @ \ {i}]
    /\ res' = [op |-> "iterclose", it |-> i]
    /\ UNCHANGED << wtx, snap, chan >>

\* ----------------------------------------------------------- commit/abort
\* channels after the commit of x published the tables in `new`
AfterPublish(x, new) ==
    [ c \in DOMAIN chan |->
        LET ch == chan[c]
            Must(b) == IF b /\ ~ch.must THEN [ch EXCEPT !.must = TRUE, !.by = x] ELSE ch IN
        IF ch.t \notin DOMAIN new THEN ch
        ELSE IF ch.kind = "init"
             THEN LET c2 == Must(ch.live /\ new[ch.t].pend = << >>) IN
                  [c2 EXCEPT !.sawInit = @ \/ (new[ch.t].pend = << >>)]
        ELSE IF ch.kind = "insert" /\ ch.tx = x THEN [ch EXCEPT !.live = TRUE, !.tx = 0]
        ELSE IF ~ch.live \/ ch.must THEN ch
        ELSE IF ch.kind = "insert"
             THEN Must(\/ ~HasPk(new[ch.t].objs, ch.key)
                       \/ EntOf(new[ch.t].objs, ch.key).rev > ch.rev0)
        ELSE IF TableWide(ch.idx, ch.q) THEN Must(new[ch.t].rev # ch.rev0)
        ELSE Must(Query(new[ch.t], ch.idx, ch.q, ch.key) # ch.res0) ]

\* the root after transaction x has been published
After(x) == [t \in Tables |-> IF t \in DOMAIN wtx[x].work THEN wtx[x].work[t] ELSE root[t]]

\* Publish: the single instant at which all writes of x become visible to new readers
Publish(x) ==
    /\ WOpen(x)
    /\ root' = After(x)
    /\ chan' = AfterPublish(x, wtx[x].work)
    /\ iter' = [i \in DOMAIN iter |-> IF iter[i].tx = x /\ iter[i].st = "pending"
                                       THEN [iter[i] EXCEPT !.st = "open"] ELSE iter[i]]
    /\ wtx' = [wtx EXCEPT ![x].st = "published", ![x].pub = After(x)]
    /\ res' = [op |-> "publish", tx |-> x, rejected |-> wtx[x].rej]
    /\ UNCHANGED snap

\* Commit returns the snapshot taken at the publish
CommitRet(x, s) ==
    /\ x \in DOMAIN wtx /\ wtx[x].st = "published" /\ s \notin DOMAIN snap
    /\ snap' = (s :> wtx[x].pub) @@ snap
    /\ wtx' = [wtx EXCEPT ![x].st = "done"]
    /\ res' = [op |-> "commit", tx |-> x, snap |-> s, rejected |-> wtx[x].rej]
    /\ UNCHANGED << root, chan, iter >>

\* sequential Commit = Publish immediately followed by the return
Commit(x, s) ==
    /\ WOpen(x) /\ s \notin DOMAIN snap
    /\ root' = After(x)
    /\ snap' = (s :> After(x)) @@ snap
    /\ chan' = AfterPublish(x, wtx[x].work)
    /\ iter' = [i \in DOMAIN iter |-> IF iter[i].tx = x /\ iter[i].st = "pending"
                                       THEN [iter[i] EXCEPT !.st = "open"] ELSE iter[i]]
    /\ wtx' = [wtx EXCEPT ![x].st = "done", ![x].pub = After(x)]
    /\ res' = [op |-> "commit", tx |-> x, snap |-> s, rejected |-> wtx[x].rej]

Abort(x) ==
    /\ WOpen(x)
    /\ wtx' = [wtx EXCEPT ![x].st = "done"]
    /\ iter' = [i \in DOMAIN iter |-> IF iter[i].tx = x /\ iter[i].st = "pending"
                                       THEN [iter[i] EXCEPT !.st = "dead"] ELSE iter[i]]
    /\ res' = [op |-> "abort", tx |-> x]
    /\ UNCHANGED << root, snap, chan >>

\* Commit/Abort of a finished transaction are no-ops
Finished(x, what) ==
    /\ x \in DOMAIN wtx /\ wtx[x].st = "done"
    /\ res' = [op |-> what, tx |-> x, snap |-> 0, rejected |-> {}]
    /\ UNCHANGED << root, wtx, snap, chan, iter >>

\* ---------------------------------------------------------------- Derive
\* statedb.Derive(In -> Out): a job of the library with its own change iterator i on In; every round is one write
\* transaction on Out that applies the transformation to the changes of In since the last round and, once In is
\* initialized, completes the initializer the job registered on Out.  The transformation of the harness
\* (drv_db.go deriveTransform): by value modulo 4.
DeriveKind(val, del) ==
    IF val % 4 = 0 THEN "skip" ELSE IF del THEN "delete" ELSE IF val % 4 = 1 THEN "update" ELSE "insert"
DeriveObj(pk, val) == [pk |-> pk, val |-> val, hasU |-> FALSE, u |-> << >>, tags |-> << >>, pfx |-> << >>,
                       hasUp |-> FALSE, upfx |-> << >>]
\* what iterator i has not been handed yet, in revision order: <<pk, val, rev, del>>
PendingOf(i) ==
    LET it == iter[i]
        ts == root[it.t]
        U == { << ts.objs[j].o.pk, ts.objs[j].o.val, ts.objs[j].rev, FALSE >> : j \in { k \in 1..Len(ts.objs) : ts.objs[k].rev > it.last } }
        D == { << ts.grave[j].pk, ts.grave[j].val, ts.grave[j].rev, TRUE >> : j \in { k \in 1..Len(ts.grave) : ts.grave[k].rev > it.mark } }
        RECURSIVE Sort(_)
        Sort(S) == IF S = {} THEN << >>
                   ELSE LET m == CHOOSE x \in S : \A y \in S : x[3] < y[3] \/ (x[3] = y[3] /\ (x[4] \/ ~y[4])) IN
                        << m >> \o Sort(S \ {m})
    IN Sort(U \cup D)
RECURSIVE DeriveFold(_, _)
DeriveFold(ts, cs) ==
    IF cs = << >> THEN ts
    ELSE LET c == Head(cs)
             o == DeriveObj(c[1], c[2])
             k == DeriveKind(c[2], c[4])
             ts2 == CASE k = "insert" -> TInsert(ts, o).ts
                      [] k = "update" -> IF HasPk(ts.objs, c[1]) THEN TInsert(ts, o).ts ELSE ts
                      [] k = "delete" -> TDelete(ts, o).ts
                      [] OTHER -> ts
         IN DeriveFold(ts2, Tail(cs))

DeriveStart(i, tin, tout) ==
    /\ i \notin DOMAIN iter /\ tin \in Tables /\ tout \in Tables /\ tin # tout
    /\ \A y \in DOMAIN wtx : wtx[y].st = "open" => wtx[y].tabs \cap {tin, tout} = {}
    /\ root' = [root EXCEPT ![tin].trk = @ \cup {i}, ![tout].pend = Append(@, "derive")]
    /\ iter' = (i :> [t |-> tin, crev |-> root[tin].rev, tx |-> 0, st |-> "open",
                      last |-> 0, mark |-> root[tin].rev, replay |-> << >>, dels |-> {}, wrev |-> root[tin].rev]) @@ iter
    /\ res' = [op |-> "derive", it |-> i, t |-> tin, t2 |-> tout]
    /\ UNCHANGED << wtx, snap, chan >>

\* the job has caught up with the committed state
DeriveSync(i, tout) ==
    /\ i \in DOMAIN iter /\ iter[i].st = "open" /\ tout \in Tables
    /\ \A y \in DOMAIN wtx : wtx[y].st = "open" => wtx[y].tabs \cap {iter[i].t, tout} = {}
    /\ LET cs == PendingOf(i)
           it == iter[i]
           t1 == DeriveFold(root[tout], cs)
           t2 == IF root[it.t].pend = << >> THEN [t1 EXCEPT !.pend = SelectSeq(@, LAMBDA n : n # "derive")] ELSE t1
           revs == { cs[j][3] : j \in 1..Len(cs) }
           drevs == { cs[j][3] : j \in { k \in 1..Len(cs) : cs[k][4] } } IN
       /\ root' = [root EXCEPT ![tout] = t2]
       /\ chan' = AfterPublish(0, (tout :> t2))
       /\ iter' = [iter EXCEPT ![i].replay = ReplayAll(it.replay, cs),
                               ![i].wrev = root[it.t].rev,
                               ![i].last = MaxOf(revs, it.last),
                               ![i].mark = MaxOf(drevs \cup {it.mark}, it.mark),
                               ![i].dels = @ \cup { << cs[j][1], cs[j][3] >> : j \in { k \in 1..Len(cs) : cs[k][4] } }]
       /\ res' = [op |-> "derivesync", it |-> i, t2 |-> tout, n |-> Len(cs)]
    /\ UNCHANGED << wtx, snap >>

\* observation of the channel bits (model: the implementation closes C, a set that contains
\* everything that must be closed and nothing that may not)
MayClose(c) ==
    LET ch == chan[c] IN
    IF ch.kind = "init" THEN ch.sawInit
    ELSE ch.t \in Tables /\ root[ch.t].rev > ch.rev0
Observe(C) ==
    /\ chan' = [c \in DOMAIN chan |-> [chan[c] EXCEPT !.closed = (c \in C)]]
    /\ res' = [op |-> "chans"]
    /\ UNCHANGED << root, wtx, snap, iter >>

\* -------------------------------------------------------------- graveyard
\* deletions that some open iterator created before them has not been handed yet
Needed(t) ==
    { j \in 1..Len(root[t].grave) :
        \E i \in DOMAIN iter : /\ iter[i].st = "open" /\ iter[i].t = t
                               /\ root[t].grave[j].rev > iter[i].mark }

-----------------------------------------------------------------------------
\* Invariants of the model
Inv_C09_TableOK == \A t \in Tables : TableOK(root[t])
Inv_C09_SnapOK  == \A s \in DOMAIN snap : \A t \in DOMAIN snap[s] : TableOK(snap[s][t])
\* due once the publishing transaction has returned from Commit
MustDue(c) == chan[c].must /\ (chan[c].by = 0 \/ wtx[chan[c].by].st = "done")
Inv_C06_Must    == \A c \in DOMAIN chan : MustDue(c) => chan[c].closed
Inv_C06_Never   == \A c \in DOMAIN chan : chan[c].closed => MayClose(c)
Act_C01_Frozen  == \A s \in DOMAIN snap : snap'[s] = snap[s]
Prop_C01_Frozen == [][Act_C01_Frozen]_vars
\* revisions never decrease from one committed state to the next
Act_C09_Monotone == \A t \in Tables : root'[t].rev >= root[t].rev
Prop_C09_Monotone == [][Act_C09_Monotone]_vars
\* abort leaves no trace
Act_C02_Abort == (res'.op = "abort") => (root' = root /\ snap' = snap /\ chan' = chan)
Prop_C02_Abort == [][Act_C02_Abort]_vars

-----------------------------------------------------------------------------
\* Bounded model
Fresh(D, max) == IF Cardinality(D) < max THEN { Cardinality(D) + 1 } ELSE {}
Objs == { [pk |-> p, val |-> v, hasU |-> FALSE, u |-> << >>, tags |-> << >>, pfx |-> << >>,
           hasUp |-> FALSE, upfx |-> << >>] : p \in Pks, v \in ObjVals }
Srcs == { [kind |-> "snap", id |-> s] : s \in DOMAIN snap }
        \cup { [kind |-> "wtxn", id |-> x] : x \in { y \in DOMAIN wtx : wtx[y].st = "open" } }
Guards(t) == {0, 1} \cup { root[t].rev }
Closable == { c \in DOMAIN chan : MayClose(c) }
MustSet  == { c \in DOMAIN chan : MustDue(c) }

Step ==
    \/ \E t \in 0..(NTables - 1) : t = Cardinality(Tables) /\ RegisterTable(t)
    \/ \E x \in Fresh(DOMAIN wtx, MaxWtx), t \in Tables : WriteTxn(x, << t >>)
    \/ \E x \in DOMAIN wtx, t \in Tables, o \in Objs, k \in {"insert", "modify", "delete"} : Write(k, x, t, o, 0, 0, FALSE)
    \/ \E x \in DOMAIN wtx, t \in Tables, o \in Objs, w \in {0} \cup Fresh(DOMAIN chan, MaxChan) : Write("insert", x, t, o, 0, w, FALSE)
    \/ \E x \in DOMAIN wtx, t \in Tables, o \in Objs, k \in {"cas", "cad"} : \E g \in Guards(t) : Write(k, x, t, o, g, 0, FALSE)
    \/ \E x \in DOMAIN wtx, t \in Tables : DeleteAll(x, t)
    \/ \E s \in Fresh(DOMAIN snap, MaxSnap) : ReadTxn(s)
    \/ \E s \in Srcs, t \in Tables, q \in {"get", "all", "lowerbound"}, p \in Pks, w \in {0} \cup Fresh(DOMAIN chan, MaxChan) :
          SrcHas(s, t) /\ QueryOp(s, t, "id", q, p, IF IsSnap(s) THEN w ELSE 0, FALSE)
    \/ \E x \in DOMAIN wtx, s \in Fresh(DOMAIN snap, MaxSnap) : Commit(x, s)
    \/ \E x \in DOMAIN wtx : Abort(x)
    \/ \E C \in SUBSET Closable : MustSet \subseteq C /\ Observe(C)

Next == nops < MaxOps /\ Step /\ nops' = nops + 1
Spec == Init /\ [][Next]_vars
View == << root, wtx, snap, chan, iter >>
=============================================================================
