------------------------------- MODULE KeyEnc -------------------------------
(***************************************************************************)
(* Index key encodings (C18).                                              *)
(*  - Req*: what any correct encoding of (secondary, primary) pairs must   *)
(*    satisfy: injective, order-embedding for (secondary, then primary),   *)
(*    separable.  Stated on an arbitrary finite function so that TLC can   *)
(*    evaluate it on the *logged* outputs of the implementation.           *)
(*  - Enc: the documented scheme (0x00 -> 01 01, 0x01 -> 01 02, separator  *)
(*    00, 16-bit big-endian length of the escaped primary key), so that    *)
(*    TLC can check the design itself on bounded strings.                  *)
(*  - fixed-width encoders and the LPM key codec.                          *)
(***************************************************************************)
EXTENDS Bytes, TLC, Integers

RECURSIVE Esc(_)
Esc(s) == IF s = << >> THEN << >>
          ELSE (IF Head(s) = 0 THEN << 1, 1 >> ELSE IF Head(s) = 1 THEN << 1, 2 >> ELSE << Head(s) >>) \o Esc(Tail(s))

Enc(s, p) == LET ep == Esc(p) IN Esc(s) \o << 0 >> \o ep \o << Len(ep) \div 256, Len(ep) % 256 >>

\* lexicographic order on pairs <<secondary, primary>>
PairLess(a, b) == Less(a[1], b[1]) \/ (a[1] = b[1] /\ Less(a[2], b[2]))

\* E: sequence of records [s, p, key, sec, pri]  (sec/pri = the implementation's own split of key)
Injective(E)  == \A i, j \in 1..Len(E) : E[i].key = E[j].key => (E[i].s = E[j].s /\ E[i].p = E[j].p)
OrderOK(E, i, j) == PairLess(<< E[i].s, E[i].p >>, << E[j].s, E[j].p >>) <=> Less(E[i].key, E[j].key)
Ordered(E)    == \A i, j \in 1..Len(E) : OrderOK(E, i, j)
Separable(E)  == \A i, j \in 1..Len(E) :
                    /\ (E[i].s = E[j].s <=> E[i].sec = E[j].sec)
                    /\ (E[i].p = E[j].p <=> E[i].pri = E[j].pri)

\* the documented scheme satisfies the requirements on all strings over A up to length n
SchemeTable(A, n) ==
    LET S == SeqsUpTo(A, n)
        P == { << s, p >> : s \in S, p \in S }
        ps == CHOOSE f \in [1..Cardinality(P) -> P] : \A i, j \in 1..Cardinality(P) : i # j => f[i] # f[j]
    IN [ i \in 1..Cardinality(P) |->
           [s |-> ps[i][1], p |-> ps[i][2], key |-> Enc(ps[i][1], ps[i][2]),
            sec |-> Esc(ps[i][1]), pri |-> Esc(ps[i][2])] ]
SchemeOK(A, n) == LET E == SchemeTable(A, n) IN Injective(E) /\ Ordered(E) /\ Separable(E)

\* direct formulation without building a table (cheaper for TLC)
SchemeOK2(A, n) ==
    LET S == SeqsUpTo(A, n) IN
    \A s1 \in S, p1 \in S, s2 \in S, p2 \in S :
        LET k1 == Enc(s1, p1) k2 == Enc(s2, p2) IN
        /\ (k1 = k2 => (s1 = s2 /\ p1 = p2))
        /\ (PairLess(<< s1, p1 >>, << s2, p2 >>) <=> Less(k1, k2))

\* fixed-width unsigned integers: value given as big-endian 16-bit limbs
UintOK(E) == \A i, j \in 1..Len(E) :
                 /\ (E[i].n = E[j].n <=> E[i].key = E[j].key)
                 /\ (Less(E[i].n, E[j].n) <=> Less(E[i].key, E[j].key))
InjOK(E)  == \A i, j \in 1..Len(E) : (E[i].n = E[j].n <=> E[i].key = E[j].key)

\* LPM key codec: decode(encode(d, l)) = (d masked to l bits, l)
Masked(bits, l) == [ i \in 1..(((l + 7) \div 8) * 8) |-> IF i <= l THEN bits[i] ELSE 0 ]
LpmOK(e) == e.dlen = e.len /\ e.dbits = Masked(e.bits, e.len)
=============================================================================
