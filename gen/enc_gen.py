"""Input tables for drv_enc (C18)."""
import itertools
import random


def strings(alphabet, maxlen):
    out = [[]]
    for n in range(1, maxlen + 1):
        out += [list(t) for t in itertools.product(alphabet, repeat=n)]
    return out


def nuk_table(alphabet, maxlen):
    ss = strings(alphabet, maxlen)
    return [dict(op="nuk", s=s, p=p) for s in ss for p in ss]


def nuk_random(rng, n):
    """Random pairs over all byte values incl. 0x00/0x01, prefix-related strings."""
    base = [rng.choice([0, 1, 2, 255, rng.randrange(256)]) for _ in range(6)]
    pool = [base[:k] for k in range(7)] + [base[:k] + [rng.choice([0, 1, 255])] for k in range(5)]
    pool += [[rng.choice([0, 1, 2, 254, 255]) for _ in range(rng.randint(0, 4))] for _ in range(8)]
    uniq = []
    for x in pool:
        if x not in uniq:
            uniq.append(x)
    pairs = [(s, p) for s in uniq for p in uniq]
    rng.shuffle(pairs)
    return [dict(op="nuk", s=s, p=p) for s, p in pairs[:n]]


def nuk_long(rng):
    """Primary keys whose escaped length crosses 255/256 (known finding J)."""
    ops = []
    for s in ([], [5]):
        for n in (253, 254, 255, 256, 257, 258, 300):
            x = [7] * n
            for p in (x, x + [0], x + [1], x + [2], x + [255], x[:-1]):
                ops.append(dict(op="nuk", s=s, p=p))
    return ops


def nuk_long_random(rng):
    """Primary keys with random content whose ESCAPED length is around and beyond 256 (raw lengths 130..300 with
    many 0x00/0x01 bytes, each of which takes two bytes), sharing long prefixes and tails."""
    n = rng.choice([130, 200, 250, 254, 260, 300])
    base = [rng.choice([0, 1, 1, 0, 7, 255, rng.randrange(256)]) for _ in range(n)]
    ps = [base, base[:-1], base + [0], base + [1], base + [9], base[:n // 2] + [3] + base[n // 2:],
          [9] + base, base[1:], base[:128], base[:127] + [0], base[:255], base[:256]]
    tail = base[-100:]
    ps += [[4] * 170 + tail, [5] * 170 + tail, [4] * 200 + tail]
    uniq = []
    for p in ps:
        if p not in uniq:
            uniq.append(p)
    return [dict(op="nuk", s=s, p=p) for s in ([], [0], [1, 1], [200]) for p in uniq]


def nuk_medium(rng):
    """Keys of 14..40 bytes (beyond any short-key fast path) with 0x00/0x01/0x02 at every position."""
    L = rng.choice([14, 15, 16, 17, 24, 31, 32, 33, 40])
    base = [rng.randrange(3, 255) for _ in range(L)]
    keys = [base, base[:-1], base + [rng.randrange(3, 255)]]
    for _ in range(6):
        i = rng.randrange(L)
        for b in (0, 1, 2):
            k = list(base)
            k[i] = b
            keys.append(k)
    keys += [[0] + base[1:], [1] + base[1:], [1, 1] + base[2:], [1, 1] + base[1:], [1, 2] + base[1:], base[:-1] + [0], base[:-1] + [1], base[:-1] + [0, 0]]
    uniq = []
    for k in keys:
        if k not in uniq:
            uniq.append(k)
    short = [[], [5], [0], [1]]
    ops = []
    for s_ in uniq:
        for p_ in short:
            ops.append(dict(op="nuk", s=s_, p=p_))
    for p_ in uniq:
        for s_ in short:
            ops.append(dict(op="nuk", s=s_, p=p_))
    return ops


def limbs(v, width):
    return [(v >> (16 * i)) & 0xffff for i in reversed(range(width // 16))]


def uint_table(rng, width, n):
    top = (1 << width) - 1
    vals = {0, 1, 2, 255, 256, 257, 65535 & top, top, top - 1, top >> 1, (top >> 1) + 1}
    for sh in range(0, width, 8):
        vals |= {(1 << sh) & top, ((1 << sh) - 1) & top, ((1 << sh) + 1) & top}
    while len(vals) < n:
        vals.add(rng.getrandbits(width))
    return [dict(op="uint", w=width, n=limbs(v, width)) for v in sorted(vals)]


def inj_table(rng, kind, n):
    if kind == "bool":
        return [dict(op="inj", kind="bool", n=[0]), dict(op="inj", kind="bool", n=[1])]
    if kind == "string":
        ss = strings([0, 1, 97, 255], 2) + [[97, 98, 99], [0, 0, 0]]
        return [dict(op="inj", kind="string", s=s, n=[]) for s in ss]
    width = {"int16": 16, "int32": 32, "int64": 64, "int": 32}[kind]
    top = (1 << width) - 1
    vals = {0, 1, top, top >> 1, (top >> 1) + 1, 255, 256, 65535 & top}
    while len(vals) < n:
        vals.add(rng.getrandbits(width))
    return [dict(op="inj", kind=kind, n=limbs(v, width)) for v in sorted(vals)]


def lpm_table(rng, n):
    ops = []
    for width in (8, 16, 24, 32, 128):
        for _ in range(n):
            bits = [rng.randint(0, 1) for _ in range(width)]
            if rng.random() < 0.3:
                bits = [1] * width
            ln = rng.choice([0, 1, 7, 8, 9, width - 1, width, rng.randint(0, width)])
            ops.append(dict(op="lpm", bits=bits, len=min(ln, width)))
    return ops


def generate(tier, seed):
    rng = random.Random(seed)
    quick = tier == "quick"
    tables = []
    tables.append(("nuk-exhaustive", nuk_table([0, 1, 2, 255], 2) if quick else nuk_table([0, 1, 2, 255], 2)))
    if not quick:
        tables.append(("nuk-exhaustive-3", nuk_table([0, 1, 2], 3)))
    for i in range(6 if quick else 60):
        tables.append((f"nuk-random-{i}", nuk_random(rng, 300)))
    for i in range(3 if quick else 30):
        tables.append((f"nuk-medium-{i}", nuk_medium(rng)))
    tables.append(("nuk-long", nuk_long(rng)))
    for i in range(2 if quick else 12):
        tables.append((f"nuk-long-random-{i}", nuk_long_random(rng)))
    for w in (16, 32, 64):
        tables.append((f"uint{w}", uint_table(rng, w, 120 if quick else 600)))
    for k in ("int16", "int32", "int64", "int", "bool", "string"):
        tables.append((k, inj_table(rng, k, 120 if quick else 600)))
    tables.append(("lpm", lpm_table(rng, 40 if quick else 400)))
    return tables
