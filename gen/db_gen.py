"""Shaped script generator for drv_db (sequential DB driver).

A script is a list of ops (one log event each).  The generator only tracks *structure*
(which transactions are open, which tables they hold, which snapshots/iterators exist); it
never predicts results -- that is the job of DB.tla through DBTrace.tla.
"""
import random

W = 16  # width of LPM keys in bits

PKS = [[], [97], [97, 98], [98], [0], [1, 0], [255]]
TAGS = [[], [116], [116, 1], [116, 0], [0], [1], [255], [116, 116], [116, 1, 9], [1, 7], [116, 2]]
PFX_POOL = [[], [1], [1, 0], [1, 0, 1, 1, 0, 0, 1], [1, 0, 1, 1, 0, 0, 1, 0], [1, 0, 1, 1, 0, 0, 1, 0, 1],
            [1, 0, 1, 1, 0, 0, 1, 0, 1, 1, 1, 1, 0, 0, 0, 1], [0, 1], [1, 0, 1, 1, 0, 0, 1, 1]]
FULL_KEYS = [[1, 0, 1, 1, 0, 0, 1, 0, 1, 1, 1, 1, 0, 0, 0, 1], [1, 0, 1, 1, 0, 0, 1, 0, 0, 0, 0, 0, 0, 0, 0, 0],
             [0, 1, 0, 0, 0, 0, 0, 0, 0, 0, 0, 0, 0, 0, 0, 0], [1, 1, 1, 1, 1, 1, 1, 1, 1, 1, 1, 1, 1, 1, 1, 1],
             [0, 0, 1, 0, 0, 0, 0, 0, 0, 0, 0, 0, 0, 0, 0, 0]]
LPM_QUERIES = PFX_POOL + [[0], [1, 1], [1, 0, 1, 1, 1], [1, 0, 1, 1, 0, 0, 0], [1, 0, 1, 1, 0, 0, 1, 0, 1, 0]]


def idbits(i):
    return [(i >> 2) & 1, (i >> 1) & 1, i & 1]


def upfx_options(pi):
    """Unique-LPM prefixes that can only ever belong to primary key number pi."""
    base = idbits(pi)
    opts = [base, base + [1], base + [1, 0, 1, 0, 1], base + [0] * 13]
    if pi == 0:
        opts.append([])
    if pi == 1:
        opts.append([0])
    if pi == 4:
        opts.append([1])
    return opts


def u_options(pi):
    pk = PKS[pi]
    opts = [pk + [1], pk + [2], [117] + pk]
    if pi == 1:
        opts.append([])
    return opts


class DBGen:
    def __init__(self, rng, mode):
        self.rng = rng
        self.mode = mode
        self.ops = []
        self.tables = []
        self.tgen = {}
        self.wtx = {}       # open: tx -> dict(tables=set, gens={t: gen})
        self.done_tx = []
        self.ntx = self.nsnap = self.nchan = self.niter = 0
        self.snaps = {}     # id -> {t: gen}
        self.iters = {}     # it -> dict(t, st, tx, lastgen)
        self.firsts = {}
        self.inits = {}     # (t, name) -> "pending-tx"/"committed"/"aborted"
        self.init_tx = {}
        self.live = {}      # rough: t -> set(pk index) believed present (for shaping only)
        self.watch_budget = 40

    def add(self, **kw):
        self.ops.append(kw)
        return len(self.ops)

    # ---- ids
    def chan(self):
        self.nchan += 1
        return self.nchan

    # ---- objects
    def obj(self, pi=None, rich=True):
        rng = self.rng
        if pi is None:
            pi = rng.randrange(len(PKS))
        o = dict(pk=PKS[pi], val=rng.randint(1, 9), hasU=False, u=[], tags=[], pfx=[], hasUp=False, upfx=[])
        if rich:
            if rng.random() < 0.5:
                o["hasU"] = True
                o["u"] = rng.choice(u_options(pi))
            if rng.random() < 0.6:
                o["tags"] = rng.sample(TAGS, rng.randint(1, 3))
            if rng.random() < 0.6:
                o["pfx"] = rng.sample(PFX_POOL[:6], rng.randint(1, 2)) if rng.random() < 0.7 else \
                    rng.sample(PFX_POOL, rng.randint(1, 2))
            if rng.random() < 0.5:
                o["hasUp"] = True
                o["upfx"] = rng.choice(upfx_options(pi))
        return o

    # ---- structure
    def newtable(self):
        t = len(self.tables)
        self.tables.append(t)
        self.tgen[t] = 0
        self.live[t] = set()
        self.add(op="newtable", t=t)
        return t

    def free_tables(self):
        held = set()
        for w in self.wtx.values():
            held |= w["tables"]
        return [t for t in self.tables if t not in held]

    def begin(self, tabs=None):
        free = self.free_tables()
        if tabs is None:
            if not free:
                return None
            n = 1 if self.rng.random() < 0.7 else min(len(free), 2)
            tabs = self.rng.sample(free, n)
        req = list(tabs)
        if req and self.rng.random() < 0.15:
            req = req + [self.rng.choice(req)]     # duplicates are allowed
            self.rng.shuffle(req)
        self.ntx += 1
        self.wtx[self.ntx] = dict(tables=set(tabs), gens=dict(self.tgen), tabs_known=list(self.tables))
        self.add(op="wtxn", tx=self.ntx, tables=req)
        return self.ntx

    def snap(self):
        self.nsnap += 1
        self.snaps[self.nsnap] = dict(self.tgen)
        self.add(op="snap", id=self.nsnap)
        return self.nsnap

    def commit(self, tx):
        self.nsnap += 1
        w = self.wtx.pop(tx)
        for t in w["tables"]:
            self.tgen[t] += 1
        # the snapshot returned by Commit contains the tables registered so far
        self.snaps[self.nsnap] = dict(self.tgen)
        self.add(op="commit", tx=tx, snap=self.nsnap)
        for it in self.iters.values():
            if it["tx"] == tx and it["st"] == "pending":
                it["st"] = "open"
                it["lastgen"] = self.tgen[it["t"]]   # never a snapshot older than the iterator
        for k, v in list(self.inits.items()):
            if v == ("pending", tx):
                self.inits[k] = "committed"
        self.done_tx.append(tx)
        ret = self.nsnap
        if not self.wtx:
            for i, it in self.iters.items():
                if it.get("obs") and not it.get("derive") and it["st"] == "open" and it["t"] in w["tables"]:
                    self.obsread(i)
        return ret

    def abort(self, tx):
        self.wtx.pop(tx)
        self.add(op="abort", tx=tx)
        for it in self.iters.values():
            if it["tx"] == tx and it["st"] == "pending":
                it["st"] = "dead"
        for k, v in list(self.inits.items()):
            if v == ("pending", tx):
                self.inits[k] = "aborted"
        self.done_tx.append(tx)

    def chans(self, ctx=""):
        self.add(op="chans", ctx=ctx)

    # ---- queries
    def snap_src(self, s):
        return {"kind": "snap", "id": s}

    def wtx_src(self, x):
        return {"kind": "wtxn", "id": x}

    def src_has(self, src, t):
        if src["kind"] == "snap":
            return t in self.snaps[src["id"]]
        return t in self.wtx[src["id"]]["gens"]

    def q(self, src, t, index, q, key, watch=False, ctx=""):
        if not self.src_has(src, t):
            return
        first = 0
        if src["kind"] == "snap":
            k = (src["id"], t, index, q, tuple(key))
            if k in self.firsts:
                first = self.firsts[k]
        w = 0
        if watch and src["kind"] == "snap" and self.watch_budget > 0:
            w = self.chan()
            self.watch_budget -= 1
        n = self.add(op="query", src=src, t=t, index=index, q=q, key=key, w=w, ctx=ctx if not first else "", first=first)
        if src["kind"] == "snap" and not first:
            self.firsts[(src["id"], t, index, q, tuple(key))] = n

    def scalar(self, src, t, what, ctx=""):
        if not self.src_has(src, t):
            return
        first = 0
        if src["kind"] == "snap":
            k = (src["id"], t, what)
            first = self.firsts.get(k, 0)
        n = self.add(op=what, src=src, t=t, ctx=ctx if not first else "", first=first)
        if src["kind"] == "snap" and not first:
            self.firsts[(src["id"], t, what)] = n

    def all_queries(self, t):
        qs = []
        for pk in PKS[:5] + [[97, 98, 99]]:
            qs.append(("id", "get", pk))
        qs += [("id", "list", [97]), ("id", "prefix", []), ("id", "prefix", [97]), ("id", "lowerbound", []),
               ("id", "lowerbound", [97, 0]), ("id", "all", [])]
        for u in ([], [97, 1], [97, 2], [117, 97], [98, 1]):
            qs.append(("u", "get", u))
            qs.append(("u", "list", u))
        qs += [("u", "prefix", []), ("u", "prefix", [97]), ("u", "lowerbound", []), ("u", "lowerbound", [97, 2])]
        for tg in TAGS[:6]:
            qs.append(("tags", "get", tg))
            qs.append(("tags", "list", tg))
        qs += [("tags", "prefix", []), ("tags", "prefix", [116]), ("tags", "lowerbound", []),
               ("tags", "lowerbound", [116]), ("tags", "lowerbound", [116, 0, 0]),
               # bounds whose escaped form differs from the raw bytes (0x00/0x01 inside, followed by larger bytes)
               ("tags", "lowerbound", [116, 1, 5]), ("tags", "lowerbound", [1, 3]), ("tags", "lowerbound", [116, 0, 200]),
               ("tags", "prefix", [116, 1]), ("tags", "prefix", [1])]
        for k in FULL_KEYS[:3]:
            qs += [("pfx", "get", k), ("pfx", "list", k), ("upfx", "get", k), ("upfx", "list", k)]
        for p in self.rng.sample(LPM_QUERIES, 4):
            qs += [("pfx", "prefix", p), ("pfx", "lowerbound", p), ("upfx", "prefix", p), ("upfx", "lowerbound", p)]
        qs += [("pfx", "prefix", []), ("upfx", "prefix", []), ("pfx", "list", [1, 0]), ("upfx", "get", [0, 0, 0])]
        for r in (0, 1, 2, 3, 5, 8):
            qs.append(("rev", "lowerbound", [r]))
        qs += [("rev", "get", [2]), ("rev", "list", [4])]
        return qs

    def battery(self, src, t, ctx="", n=None, watch=False):
        qs = self.all_queries(t)
        if n is not None and n < len(qs):
            qs = self.rng.sample(qs, n)
        for (idx, q, key) in qs:
            self.q(src, t, idx, q, key, watch=watch and self.rng.random() < 0.5, ctx=ctx)
        self.scalar(src, t, "num", ctx=ctx)
        self.scalar(src, t, "rev", ctx=ctx)

    def requery(self, n):
        """Re-issue earlier queries on retained snapshots."""
        keys = [k for k in self.firsts if k[0] in self.snaps]
        if not keys:
            return
        for k in self.rng.sample(keys, min(n, len(keys))):
            if len(k) == 3:
                self.scalar(self.snap_src(k[0]), k[1], k[2])
            else:
                self.q(self.snap_src(k[0]), k[1], k[2], k[3], list(k[4]))

    # ---- writes
    def write(self, tx, t, p_guarded=0.25, rich=True, watch=False):
        rng = self.rng
        pi = rng.randrange(len(PKS) - 2) if rng.random() < 0.85 else rng.randrange(len(PKS))
        o = self.obj(pi, rich=rich)
        r = rng.random()
        locked = t in self.wtx[tx]["tables"] if tx in self.wtx else False
        if r < p_guarded:
            kind = rng.choice(["cas", "cad"])
            gsym = rng.choice(["cur", "cur", "stale", "future"])
            self.add(op=kind, tx=tx, t=t, obj=o, guard=0, gsym=gsym, w=0)
            return kind
        p_ins = 0.33 if self.mode in ("c01", "c02") else 0.45    # more Modify in the snapshot/abort families
        if r < p_guarded + p_ins:
            w = self.chan() if watch and rng.random() < 0.4 and locked else 0
            self.add(op="insert", tx=tx, t=t, obj=o, guard=0, gsym="", w=w)
            self.live[t].add(pi)
            return "insert"
        if r < p_guarded + 0.55:
            self.add(op="modify", tx=tx, t=t, obj=o, guard=0, gsym="", w=0)
            self.live[t].add(pi)
            return "modify"
        if r < p_guarded + 0.73 or not locked:
            self.add(op="delete", tx=tx, t=t, obj=o, guard=0, gsym="", w=0)
            self.live[t].discard(pi)
            return "delete"
        self.add(op="deleteall", tx=tx, t=t)
        self.live[t] = set()
        return "deleteall"

    # ---- iterators
    def changes(self, tx, t):
        self.niter += 1
        self.iters[self.niter] = dict(t=t, st="pending", tx=tx, lastgen=-1)
        self.add(op="changes", tx=tx, t=t, it=self.niter)
        return self.niter

    def observe(self, t):
        """statedb.Observable on t; its batches are read after every commit of t (see commit)."""
        if self.wtx:
            return None
        self.niter += 1
        self.iters[self.niter] = dict(t=t, st="open", tx=None, lastgen=self.tgen[t], obs=True)
        self.add(op="observe", it=self.niter, t=t)
        self.obsread(self.niter)
        return self.niter

    def obsread(self, it):
        d = self.iters[it]
        if d["st"] != "open" or self.wtx:
            return
        s = self.snap()
        d["lastgen"] = self.tgen[d["t"]]
        self.add(op="obsread", it=it, src=self.snap_src(s))

    def next(self, it, src=None, take=None):
        d = self.iters[it]
        t = d["t"]
        if d["st"] != "open" or d.get("obs"):
            return
        if src is None:
            cands = []
            for s, g in self.snaps.items():
                if t in g and g[t] >= d["lastgen"]:
                    cands.append((self.snap_src(s), g[t]))
            for x, w in self.wtx.items():
                if t in w["gens"] and w["gens"][t] >= d["lastgen"]:
                    cands.append((self.wtx_src(x), w["gens"][t]))
            if not cands or self.rng.random() < 0.5:
                s = self.snap()
                cands = [(self.snap_src(s), self.tgen[t])]
            src, g = self.rng.choice(cands[-4:])
        else:
            g = self.snaps[src["id"]][t] if src["kind"] == "snap" else self.wtx[src["id"]]["gens"][t]
            if g < d["lastgen"]:
                return
        d["lastgen"] = g
        if take is None:
            take = -1 if self.rng.random() < 0.6 else self.rng.randint(0, 3)
        self.add(op="next", it=it, src=src, take=take, w=self.chan())

    def iterclose(self, it):
        d = self.iters[it]
        if d["st"] not in ("open", "dead"):
            return
        if d["t"] not in self.free_tables():
            return
        if d.get("obs"):
            if self.wtx:
                return
            d["st"] = "closed"
            self.tgen[d["t"]] += 1
            self.add(op="obsstop", it=it)
            return
        d["st"] = "closed"
        self.tgen[d["t"]] += 1
        self.add(op="iterclose", it=it)

    def sleep(self, ms):
        if self.wtx:
            return
        self.add(op="sleep", ms=ms)

    def grave(self, t, quiet=False):
        self.add(op="grave", t=t, quiet=quiet)

    def finish(self):
        for tx in list(self.wtx):
            if self.rng.random() < 0.5:
                self.commit(tx)
            else:
                self.abort(tx)
        return self.ops


# --------------------------------------------------------------------------------------------

def gen_general(rng, mode):
    """One script.  mode selects the emphasis (the property family)."""
    g = DBGen(rng, mode)
    g.add(op="config", nilempty=rng.random() < 0.3)
    ntab = 1 if rng.random() < 0.6 else 2
    for _ in range(ntab):
        g.newtable()
    rich = mode not in ("c03", "c09") or rng.random() < 0.3
    steps = rng.randint(3, 7)
    for step in range(steps):
        free = g.free_tables()
        if not free:
            break
        # observations before the transaction
        t = rng.choice(free)
        if mode in ("c01", "c04", "c02", "c06", "c09"):
            s = g.snap()
            if mode == "c06":
                g.battery(g.snap_src(s), t, n=12, watch=True)
            elif mode == "c02":
                g.battery(g.snap_src(s), t, n=10, watch=rng.random() < 0.5)
            else:
                g.battery(g.snap_src(s), t, n=None if mode == "c04" else 14, watch=False)
        if mode == "c01" and rng.random() < 0.2 and len(g.tables) < 3:
            g.newtable()
        tx = g.begin([t] if rng.random() < 0.7 else None)
        if tx is None:
            break
        tabs = sorted(g.wtx[tx]["tables"])
        nw = rng.randint(1, 6)
        guarded_only = {}
        for _ in range(nw):
            tt = rng.choice(tabs)
            if mode == "c03" and rng.random() < 0.08:
                others = [x for x in g.tables if x not in tabs]
                if others:
                    tt = rng.choice(others)    # table the transaction does not hold
            kind = g.write(tx, tt, p_guarded=0.35 if mode in ("c03", "c09") else 0.15, rich=rich,
                           watch=mode == "c06")
            if tt in tabs:
                guarded_only[tt] = guarded_only.get(tt, True) and kind in ("cas", "cad")
            if mode == "c03" and kind in ("cas", "cad") and rng.random() < 0.5 and tt in tabs:
                g.battery(g.wtx_src(tx), tt, ctx="postreject", n=5)
            if mode in ("c04", "c03", "c01") and rng.random() < 0.3 and tt in tabs:
                g.battery(g.wtx_src(tx), tt, n=6)
            if mode == "c01" and rng.random() < 0.3:
                g.requery(4)     # while the transaction is pending
        for tt, only in guarded_only.items():
            if only:
                # a transaction whose only operations on a table are (possibly rejected) compare-and-*
                # operations is the subject of a dedicated family (known finding L); add a plain insert
                g.add(op="insert", tx=tx, t=tt, obj=g.obj(rich=rich), guard=0, gsym="", w=0)
        do_abort = rng.random() < (0.5 if mode == "c02" else 0.25)
        if do_abort:
            g.abort(tx)
            g.chans(ctx="postabort")
            s2 = g.snap()
            for tt in tabs:
                g.battery(g.snap_src(s2), tt, ctx="postabort", n=None if mode == "c02" else 8)
        else:
            s2 = g.commit(tx)
            g.chans()
            if mode in ("c04", "c09", "c03"):
                for tt in tabs:
                    g.battery(g.snap_src(s2), tt, n=None if mode == "c04" else 10)
        if mode == "c03" and rng.random() < 0.3:
            # operations through the finished transaction
            g.write(tx, tabs[0], rich=False)
            g.add(op="commit", tx=tx, snap=0) if rng.random() < 0.5 else g.add(op="abort", tx=tx)
        if mode in ("c01", "c02", "c06"):
            g.requery(rng.randint(3, 10))
    if mode == "c01":
        g.requery(25)
    g.chans()
    return g.finish()


def gen_iter(rng, mode):
    """Change iterators, graveyard collection (virtual time), C07/C08."""
    g = DBGen(rng, mode)
    g.add(op="config", nilempty=False)
    t = g.newtable()
    if rng.random() < 0.3:
        g.newtable()
    # some initial content
    tx = g.begin([t])
    for _ in range(rng.randint(0, 4)):
        g.write(tx, t, p_guarded=0, rich=False)
    if rng.random() < 0.7:
        g.changes(tx, t)
    g.commit(tx)
    if rng.random() < 0.3:
        g.observe(t)           # a subscriber of statedb.Observable: an iterator driven by the library itself
    for step in range(rng.randint(4, 10)):
        r = rng.random()
        open_iters = [i for i, d in g.iters.items() if d["st"] == "open" and not d.get("obs")]
        if r < 0.45:
            tabs = [t] if rng.random() < 0.85 or len(g.tables) < 2 else [t, 1]
            tx = g.begin(tabs)
            if tx is None:
                continue
            created = None
            for _ in range(rng.randint(1, 5)):
                if rng.random() < 0.15 and len(g.iters) < 4:
                    created = g.changes(tx, t)
                else:
                    g.write(tx, t, p_guarded=0.1, rich=False)
                if open_iters and rng.random() < 0.25:
                    # Next with the write transaction that holds uncommitted changes of the table
                    g.next(rng.choice(open_iters), src=g.wtx_src(tx))
            if rng.random() < 0.8:
                g.commit(tx)
            else:
                g.abort(tx)
                if created is not None and rng.random() < 0.4:
                    g.iterclose(created)      # closing the iterator of an aborted transaction is optional
            g.chans()
        elif r < 0.8 and open_iters:
            g.next(rng.choice(open_iters))
            if rng.random() < 0.3:
                g.chans()
        elif r < 0.87 and open_iters:
            g.iterclose(rng.choice(open_iters))
        elif r < 0.95:
            g.sleep(rng.choice([300, 1100, 2500]))
            g.grave(t, quiet=False)
        else:
            if len(g.iters) < 4:
                tx = g.begin([t])
                if tx is not None:
                    g.changes(tx, t)
                    g.commit(tx)
    # catch up or close everything, then the graveyard must drain
    for i, d in g.iters.items():
        if d["st"] == "open":
            if rng.random() < 0.6:
                s = g.snap()
                g.next(i, src=g.snap_src(s), take=-1)
                g.next(i, src=g.snap_src(s), take=-1)
            else:
                g.iterclose(i)
    g.chans()
    g.sleep(2500)
    g.grave(t, quiet=True)
    for i, d in g.iters.items():
        if d["st"] == "dead":
            g.iterclose(i)
    for i, d in g.iters.items():
        if d["st"] == "open":
            g.iterclose(i)
    g.sleep(2500)
    g.grave(t, quiet=True)
    return g.finish()


def gen_init(rng, mode):
    """Table initializers across committed and aborted transactions (C19)."""
    g = DBGen(rng, mode)
    g.add(op="config", nilempty=False)
    t = g.newtable()
    names = ["a", "b", "c"]
    state = {}     # name -> "none" | "reg" | "done"
    s = g.snap()
    g.add(op="init", src=g.snap_src(s), t=t, w=g.chan())
    for step in range(rng.randint(3, 8)):
        tx = g.begin([t])
        local = dict(state)
        for _ in range(rng.randint(1, 4)):
            r = rng.random()
            cand_reg = [n for n in names if local.get(n, "none") == "none"]
            cand_done = [n for n in names if local.get(n, "none") in ("reg", "done")]
            if r < 0.35 and cand_reg:
                n = rng.choice(cand_reg)
                g.add(op="reginit", tx=tx, t=t, name=n)
                local[n] = "reg"
            elif r < 0.7 and cand_done:
                n = rng.choice(cand_done)
                # a done-function may be called again (twice in one transaction, in a later one, after the table
                # became initialized, while other initializers are pending): it must stay without effect
                if local[n] == "reg" or rng.random() < 0.5:
                    g.add(op="markdone", tx=tx, t=t, name=n)
                    local[n] = "done"
            elif r < 0.85:
                g.write(tx, t, p_guarded=0, rich=False)
            else:
                g.add(op="init", src=g.wtx_src(tx), t=t, w=0)
        if rng.random() < 0.7:
            s2 = g.commit(tx)
            # registrations made in this transaction are now usable by later transactions
            state = local
            g.chans()
            g.add(op="init", src=g.snap_src(s2), t=t, w=g.chan())
        else:
            g.abort(tx)
            # names registered in the aborted transaction must not be used again: their done-function
            # belongs to a registration that never happened
            for n in names:
                if local.get(n, "none") != "none" and state.get(n, "none") == "none":
                    state[n] = "burnt"
            g.chans(ctx="postabort")
            s2 = g.snap()
            g.add(op="init", src=g.snap_src(s2), t=t, w=g.chan())
        if rng.random() < 0.3:
            olds = rng.choice(list(g.snaps))
            if t in g.snaps[olds]:
                g.add(op="init", src=g.snap_src(olds), t=t, w=0)
    g.chans()
    return g.finish()


def gen_kf_rejected_only(rng, mode):
    """Known finding L: a committed transaction containing only rejected CompareAndSwap /
    CompareAndDelete operations closes watch channels although nothing changed."""
    g = DBGen(rng, mode)
    g.add(op="config", nilempty=False)
    t = g.newtable()
    tx = g.begin([t])
    for _ in range(rng.randint(0, 3)):
        g.add(op="insert", tx=tx, t=t, obj=g.obj(rich=False), guard=0, gsym="", w=0)
    g.commit(tx)
    s = g.snap()
    g.battery(g.snap_src(s), t, n=8, watch=True)
    tx = g.begin([t])
    for _ in range(rng.randint(1, 3)):
        g.add(op=rng.choice(["cas", "cad"]), tx=tx, t=t, obj=g.obj(rich=False), guard=0,
              gsym=rng.choice(["stale", "future"]), w=0)
    g.commit(tx)
    g.chans()
    return g.finish()


def gen_kf_zero_guard(rng, mode):
    """Known finding N: guard revision 0 is treated as "no guard"."""
    g = DBGen(rng, mode)
    g.add(op="config", nilempty=False)
    t = g.newtable()
    tx = g.begin([t])
    for _ in range(rng.randint(0, 2)):
        g.add(op="insert", tx=tx, t=t, obj=g.obj(rich=False), guard=0, gsym="", w=0)
    g.add(op=rng.choice(["cas", "cad"]), tx=tx, t=t, obj=g.obj(rich=False), guard=0, gsym="", w=0)
    g.commit(tx)
    return g.finish()


def gen_c18(rng, mode):
    """Black-box order of a non-unique index: objects with secondary/primary keys over {00,01,02,ff}."""
    import itertools
    g = DBGen(rng, mode)
    g.add(op="config", nilempty=False)
    t = g.newtable()
    alpha = [0, 1, 2, 255]
    strs = [[]] + [[a] for a in alpha] + [list(x) for x in itertools.product(alpha, repeat=2)]
    pks = rng.sample(strs, rng.randint(4, 8))
    tx = g.begin([t])
    tagsets = []
    for pk in pks:
        tags = rng.sample(strs, rng.randint(1, 3))
        tagsets += tags
        g.add(op="insert", tx=tx, t=t, obj=dict(pk=pk, val=rng.randint(1, 9), hasU=False, u=[], tags=tags, pfx=[],
                                                 hasUp=False, upfx=[]), guard=0, gsym="", w=0)
    s = g.commit(tx)
    src = g.snap_src(s)
    for tg in rng.sample(strs, 6) + tagsets[:6]:
        g.q(src, t, "tags", "list", tg)
        g.q(src, t, "tags", "get", tg)
        g.q(src, t, "tags", "prefix", tg)
        g.q(src, t, "tags", "lowerbound", tg)
    g.q(src, t, "tags", "prefix", [])
    g.q(src, t, "tags", "lowerbound", [])
    return g.finish()


def gen_lpm_shared(rng, mode):
    """k = 2..8 objects under ONE prefix of the non-unique LPM index (they share one trie entry and its
    backing array), inserted in arbitrary order one transaction at a time, then updated / inserted in the
    middle / deleted at every position, in committed, aborted and still-pending transactions; every snapshot
    taken on the way is re-queried through that index after every later step."""
    g = DBGen(rng, mode)
    g.watch_budget = 300
    g.add(op="config", nilempty=False)
    t = g.newtable()
    P = rng.choice([[1, 0], [1, 0, 1, 1, 0, 0, 1, 0], [], [0, 1, 1]])
    P2 = [1, 1]
    full = P + [0] * (W - len(P))
    pks = [[b] for b in rng.sample(range(10, 200), rng.randint(4, 9))]

    def obj(pk, two=False):
        return dict(pk=pk, val=rng.randint(1, 9), hasU=False, u=[], tags=[], pfx=[P, P2] if two else [P],
                    hasUp=False, upfx=[])

    snaps = []

    def observe(src, ctx="", watch=False):
        g.q(src, t, "pfx", "list", full, ctx=ctx, watch=watch)
        g.q(src, t, "pfx", "get", full, ctx=ctx, watch=watch)
        g.q(src, t, "pfx", "prefix", [], ctx=ctx, watch=watch)
        g.q(src, t, "pfx", "lowerbound", [], ctx=ctx, watch=watch)
        g.q(src, t, "pfx", "list", P, ctx=ctx, watch=watch)
        g.q(src, t, "id", "all", [], ctx=ctx)

    def requery():
        for s in snaps:
            observe(g.snap_src(s))

    live = []
    for step in range(rng.randint(6, 16)):
        tx = g.begin([t])
        r = rng.random()
        nops = 1 if rng.random() < 0.7 else 2
        for _ in range(nops):
            if r < 0.55 or len(live) < 2:
                cand = [p for p in pks if p not in live] or pks
                pk = rng.choice(cand)
                g.add(op="insert", tx=tx, t=t, obj=obj(pk, two=rng.random() < 0.2), guard=0, gsym="", w=0)
                if pk not in live:
                    live.append(pk)
            elif r < 0.8:
                pk = rng.choice(live)
                g.add(op=rng.choice(["insert", "modify"]), tx=tx, t=t, obj=obj(pk), guard=0, gsym="", w=0)
            else:
                pk = rng.choice(live)
                g.add(op="delete", tx=tx, t=t, obj=obj(pk), guard=0, gsym="", w=0)
                live.remove(pk)
            r = rng.random()
        if rng.random() < 0.3:
            observe(g.wtx_src(tx))
            requery()          # while the transaction is pending
        if rng.random() < (0.5 if mode == "c02" else 0.2):
            g.abort(tx)
            g.chans(ctx="postabort")
            s2 = g.snap()
            observe(g.snap_src(s2), ctx="postabort")
            live = None        # unknown after an abort: rebuilt below
        else:
            s2 = g.commit(tx)
            if mode == "c06":
                # watches taken through the shared-prefix index from the previous snapshot must have closed if
                # this commit changed what they returned; fresh ones are taken from the new snapshot
                g.chans(ctx="postcommit")
            observe(g.snap_src(s2), watch=(mode == "c06"))
        snaps.append(s2)
        if live is None:
            live = []          # shaping only: keep inserting
        requery()
    return g.finish()


def gen_c06_inner(rng, mode):
    """Watches on primary/unique-index keys that sit on inner radix nodes which lost their children: insert a
    chain of keys that are prefixes of one another, delete the deepest, take Get/Prefix/List watches on the
    remaining keys, their prefixes and absent extensions from a fresh snapshot, then delete or re-extend them."""
    g = DBGen(rng, mode)
    g.add(op="config", nilempty=False)
    t = g.newtable()
    b = rng.choice([97, 5, 0, 255])
    chain = [[b] * n for n in range(1, rng.randint(3, 5))]
    side = [[(b + 1) % 256], [b, (b + 1) % 256]]
    allk = chain + side + [[]]

    def obj(pk):
        return dict(pk=pk, val=rng.randint(1, 9), hasU=rng.random() < 0.5, u=pk + [1], tags=[], pfx=[], hasUp=False, upfx=[])

    def txn(writes):
        tx = g.begin([t])
        for kind, pk in writes:
            g.add(op="insert" if kind == "i" else "delete", tx=tx, t=t, obj=obj(pk), guard=0, gsym="", w=0)
        g.commit(tx)
        g.chans()

    def watches():
        s = g.snap()
        src = g.snap_src(s)
        for pk in rng.sample(allk, rng.randint(2, len(allk))):
            g.q(src, t, "id", "get", pk, watch=True)
            g.q(src, t, "id", "prefix", pk, watch=True)
            g.q(src, t, "u", "prefix", pk, watch=True)
            g.q(src, t, "id", "list", pk, watch=True)
        for pk in chain[-2:]:
            g.q(src, t, "id", "get", pk + [rng.choice([1, 122])], watch=True)
            g.q(src, t, "u", "get", pk + [rng.choice([1, 122])], watch=True)

    g.watch_budget = 400
    ins = [("i", k) for k in chain] + [("i", k) for k in side if rng.random() < 0.7]
    rng.shuffle(ins)
    for i in range(0, len(ins), 2):
        txn(ins[i:i + 2])
    for k in reversed(chain[-rng.randint(1, 2):]):
        watches()
        txn([("d", k)])
    rest = list(chain)
    rng.shuffle(rest)
    for k in rest[:rng.randint(1, len(rest))]:
        watches()
        txn([(rng.choice(["d", "d", "i"]), k)])
    watches()
    txn([("i", chain[-1] + [7])])
    return g.finish()


def gen_gcwindow(rng, mode):
    """The windows around a rate-limited collection run: delete while an iterator is open, close the last
    iterator (or catch it up), then -- before / after the collector gets to run -- re-insert, open a new
    iterator, delete again; short and long virtual sleeps at every point."""
    g = DBGen(rng, mode)
    g.add(op="config", nilempty=False)
    t = g.newtable()
    pk = [0, 1, 2]

    def o(i):
        return dict(pk=PKS[pk[i]], val=rng.randint(1, 9), hasU=False, u=[], tags=[], pfx=[], hasUp=False, upfx=[])

    def nap():
        r = rng.random()
        if r < 0.5:
            return
        g.sleep(rng.choice([1, 300, 900, 1100, 2500]))

    tx = g.begin([t])
    for i in range(3):
        g.add(op="insert", tx=tx, t=t, obj=o(i), guard=0, gsym="", w=0)
    a = g.changes(tx, t)
    b = g.changes(tx, t) if rng.random() < 0.3 else None
    g.commit(tx)
    g.next(a, take=-1)
    # a first collection run, so that the next one is rate limited
    tx = g.begin([t])
    g.add(op="delete", tx=tx, t=t, obj=o(0), guard=0, gsym="", w=0)
    g.commit(tx)
    g.next(a, take=-1)
    if b is not None:
        g.next(b, take=-1)
    nap()
    for _ in range(rng.randint(1, 3)):
        i = rng.randrange(3)
        tx = g.begin([t])
        g.add(op="delete", tx=tx, t=t, obj=o(i), guard=0, gsym="", w=0)
        g.commit(tx)
        nap()
        # the iterators are closed or caught up: the deletion becomes collectable
        for it in (a, b):
            if it is not None and g.iters[it]["st"] == "open":
                if rng.random() < 0.6:
                    g.iterclose(it)
                else:
                    g.next(it, take=-1)
        nap()
        tx = g.begin([t])
        g.add(op="insert", tx=tx, t=t, obj=o(i), guard=0, gsym="", w=0)      # re-insert
        created = g.changes(tx, t) if rng.random() < 0.5 and len(g.iters) < 5 else None
        g.commit(tx)
        nap()
        if created is None and len(g.iters) < 5:
            tx = g.begin([t])
            created = g.changes(tx, t)
            g.commit(tx)
        tx = g.begin([t])
        g.add(op="delete", tx=tx, t=t, obj=o(i), guard=0, gsym="", w=0)      # delete again
        g.commit(tx)
        if created is not None:
            g.next(created, take=-1)
        g.grave(t, quiet=False)
        a, b = created, None
        tx = g.begin([t])
        g.add(op="insert", tx=tx, t=t, obj=o(i), guard=0, gsym="", w=0)
        g.commit(tx)
    for i, d in g.iters.items():
        if d["st"] == "open":
            if rng.random() < 0.5:
                g.next(i, take=-1)
                g.next(i, take=-1)
            else:
                g.iterclose(i)
    g.sleep(2500)
    g.grave(t, quiet=True)
    for i, d in g.iters.items():
        if d["st"] == "open":
            g.iterclose(i)
    g.sleep(2500)
    g.grave(t, quiet=True)
    return g.finish()


def gen_c06_dense(rng, mode):
    """Dense primary-key universe (all strings over a 2-letter alphabet up to length 4): every structural case
    of the index tree (values on inner nodes, forks below them, prefix splits) arises; before each transaction
    Get/Prefix/List watches on present and absent keys from a fresh snapshot; 1-3 writes per transaction."""
    import itertools
    g = DBGen(rng, mode)
    g.add(op="config", nilempty=False)
    t = g.newtable()
    alpha = rng.choice([[1, 2], [1, 2], [0, 255], [97, 98]])
    universe = [[]] + [list(x) for n in range(1, 5) for x in itertools.product(alpha, repeat=n)]
    g.watch_budget = 600

    def obj(pk):
        return dict(pk=pk, val=rng.randint(1, 9), hasU=rng.random() < 0.3, u=pk + [7], tags=[], pfx=[], hasUp=False, upfx=[])

    tx = g.begin([t])
    for pk in rng.sample(universe, rng.randint(3, 10)):
        g.add(op="insert", tx=tx, t=t, obj=obj(pk), guard=0, gsym="", w=0)
    g.commit(tx)
    for _ in range(rng.randint(3, 6)):
        s = g.snap()
        src = g.snap_src(s)
        for pk in rng.sample(universe, rng.randint(4, 8)):
            r = rng.random()
            if r < 0.4:
                g.q(src, t, "id", "get", pk, watch=True)
            elif r < 0.9:
                g.q(src, t, "id", "prefix", pk, watch=True)
            else:
                g.q(src, t, "u", "prefix", pk, watch=True)
        tx = g.begin([t])
        for _ in range(rng.randint(1, 3)):
            pk = rng.choice(universe)
            g.add(op="insert" if rng.random() < 0.55 else "delete", tx=tx, t=t, obj=obj(pk), guard=0, gsym="", w=0)
        if rng.random() < 0.85:
            g.commit(tx)
            g.chans()
        else:
            g.abort(tx)
            g.chans(ctx="postabort")
    return g.finish()


def gen_c01_dense(rng, mode):
    """Dense primary-key universe (all strings over two letters up to length 3 plus one outlier) so that keys sit
    on inner nodes with one or several children; every transaction performs 2-3 writes WITHOUT a query in between
    (a query through the transaction would freeze the nodes it owns), half of them aimed at one node: touch a key
    (modify it, have a compare-and-swap on it rejected, write or delete a key directly below it) and then delete
    it; committed, aborted or left pending while every earlier snapshot is queried again key by key."""
    import itertools
    g = DBGen(rng, mode)
    g.add(op="config", nilempty=False)
    t = g.newtable()
    alpha = rng.choice([[1, 2], [97, 98], [0, 255]])
    universe = [list(x) for n in range(1, 4) for x in itertools.product(alpha, repeat=n)] + [[alpha[0] + 7]]
    live = set()

    def obj(pk):
        return dict(pk=pk, val=rng.randint(1, 9), hasU=False, u=[], tags=[], pfx=[], hasUp=False, upfx=[])

    snaps = []

    def observe(src, ctx=""):
        for pk in universe:
            g.q(src, t, "id", "get", pk, ctx=ctx)
        for pk in ([], [alpha[0]], [alpha[0], alpha[0]], [alpha[1]]):
            g.q(src, t, "id", "prefix", pk, ctx=ctx)
        g.q(src, t, "id", "lowerbound", [alpha[0], alpha[1]], ctx=ctx)
        g.q(src, t, "id", "all", [], ctx=ctx)
        g.scalar(src, t, "num", ctx=ctx)

    tx = g.begin([t])
    for pk in rng.sample(universe, rng.randint(4, 9)):
        g.add(op="insert", tx=tx, t=t, obj=obj(pk), guard=0, gsym="", w=0)
        live.add(tuple(pk))
    s0 = g.commit(tx)
    observe(g.snap_src(s0))
    snaps.append(s0)
    # a write transaction over NO table, open while others commit, committed or aborted later: it publishes nothing
    empty = None
    for _ in range(rng.randint(3, 6)):
        if empty is None and rng.random() < 0.3:
            empty = g.begin([])
        elif empty not in (None, False) and rng.random() < 0.5:
            if rng.random() < 0.8:
                se = g.commit(empty)
                observe(g.snap_src(se))
                snaps.append(se)
            else:
                g.abort(empty)
            empty = False
            for s in snaps:
                observe(g.snap_src(s))
        tx = g.begin([t])
        now = set(live)
        parents = [k for k in now if any(len(c) > len(k) and c[:len(k)] == k for c in now)]
        if parents and rng.random() < 0.6:
            K = list(rng.choice(sorted(parents)))
            below = [list(c) for c in sorted(now) if len(c) == len(K) + 1 and list(c[:len(K)]) == K]
            r = rng.random()
            if r < 0.3:
                g.add(op="modify", tx=tx, t=t, obj=obj(K), guard=0, gsym="", w=0)
            elif r < 0.5:
                g.add(op="cas", tx=tx, t=t, obj=obj(K), guard=0, gsym="stale", w=0)
            elif r < 0.75 and below:
                c = rng.choice(below)
                g.add(op="delete", tx=tx, t=t, obj=obj(c), guard=0, gsym="", w=0)
                now.discard(tuple(c))
            else:
                c = K + [rng.choice(alpha)]
                g.add(op="insert", tx=tx, t=t, obj=obj(c), guard=0, gsym="", w=0)
                now.add(tuple(c))
            g.add(op="delete", tx=tx, t=t, obj=obj(K), guard=0, gsym="", w=0)
            now.discard(tuple(K))
        else:
            for _ in range(rng.randint(2, 3)):
                pk = rng.choice(universe)
                if rng.random() < 0.5:
                    g.add(op=rng.choice(["insert", "modify"]), tx=tx, t=t, obj=obj(pk), guard=0, gsym="", w=0)
                    now.add(tuple(pk))
                else:
                    g.add(op="delete", tx=tx, t=t, obj=obj(pk), guard=0, gsym="", w=0)
                    now.discard(tuple(pk))
        r = rng.random()
        if r < 0.25:
            for s in snaps:
                observe(g.snap_src(s))          # while the transaction is pending
        if rng.random() < (0.5 if mode == "c02dense" else 0.25):
            g.abort(tx)
            s2 = g.snap()
            observe(g.snap_src(s2), ctx="postabort")
        else:
            s2 = g.commit(tx)
            live = now
            observe(g.snap_src(s2))
        snaps.append(s2)
        for s in snaps[:-1]:
            observe(g.snap_src(s))
    return g.finish()


def from_graveyard(rng, hist):
    """drv_db script for one behaviour printed by GenGraveyard.tla (whole API calls on one table)."""
    g = DBGen(rng, "c08")
    g.add(op="config", nilempty=False)
    t = g.newtable()
    its = {}

    def obj(k):
        return dict(pk=PKS[k], val=rng.randint(1, 9), hasU=False, u=[], tags=[], pfx=[], hasUp=False, upfx=[])

    for h in hist:
        op = h["op"]
        if op in ("upsert", "delete"):
            tx = g.begin([t])
            g.add(op="insert" if op == "upsert" else "delete", tx=tx, t=t, obj=obj(h["k"]), guard=0, gsym="", w=0)
            g.commit(tx)
        elif op == "changes":
            tx = g.begin([t])
            its[h["i"]] = g.changes(tx, t)
            g.commit(tx)
        elif op == "next":
            s = g.snap()
            g.next(its[h["i"]], src=g.snap_src(s), take=h["n"])
        elif op == "close":
            g.iterclose(its[h["i"]])
        elif op == "time":
            g.sleep(2500)
            g.grave(t, quiet=bool(h["exact"]))
    return g.finish()


def gen_derive(rng, mode):
    """statedb.Derive: table 1 mirrors table 0 through the harness' transformation (skip / update-only / insert by
    value, deletions delete).  User writes go to table 0 only (incl. aborted transactions, delete + re-insert in one
    transaction, initializers of table 0); after every step the job is given time and table 1 is read back in
    full: contents, revisions, initialization state and watch channels on it."""
    g = DBGen(rng, mode)
    g.add(op="config", nilempty=False)
    tin, tout = g.newtable(), g.newtable()
    use_init = rng.random() < 0.6
    if use_init:
        tx = g.begin([tin])
        g.add(op="reginit", tx=tx, t=tin, name="a")
        g.commit(tx)
    if rng.random() < 0.5:
        tx = g.begin([tin])
        for _ in range(rng.randint(1, 3)):
            g.write(tx, tin, p_guarded=0, rich=False)
        g.commit(tx)
    g.niter += 1
    it = g.niter
    g.iters[it] = dict(t=tin, st="open", tx=None, lastgen=g.tgen[tin], obs=True, derive=True)
    g.add(op="derive", it=it, t=tin, t2=tout)

    def check(ctx=""):
        g.add(op="derivesync", it=it, t2=tout)
        g.tgen[tout] += 1
        s = g.snap()
        src = g.snap_src(s)
        g.q(src, tout, "id", "all", [], watch=True, ctx=ctx)
        g.q(src, tout, "id", "get", PKS[rng.randrange(5)], watch=True, ctx=ctx)
        g.scalar(src, tout, "rev", ctx=ctx)
        g.scalar(src, tout, "num", ctx=ctx)
        g.add(op="init", src=src, t=tout, w=g.chan())
        g.chans()

    check()
    done = False
    for _ in range(rng.randint(3, 8)):
        tx = g.begin([tin])
        for _ in range(rng.randint(1, 4)):
            g.write(tx, tin, p_guarded=0.1, rich=False)
        if use_init and not done and rng.random() < 0.3:
            g.add(op="markdone", tx=tx, t=tin, name="a")
            marked = True
        else:
            marked = False
        if rng.random() < 0.8:
            g.commit(tx)
            done = done or marked
        else:
            g.abort(tx)
        check()
        if rng.random() < 0.2:
            g.sleep(rng.choice([300, 2500]))
            check()
    return g.finish()


def gen_dbfan(rng, mode):
    """Wide nodes in the table's index trees: a key K that is a proper prefix of 47..52 other keys with distinct next
    bytes (the inner node holding K's object grows through the 4/16/48 thresholds into a 256-way node and shrinks
    back), K written before, in between or after; K and the whole table are read back after every step, inside the
    transaction and from snapshots."""
    g = DBGen(rng, mode)
    g.add(op="config", nilempty=False)
    t = g.newtable()
    K = rng.choice([[], [97], [0]])
    n = rng.choice([47, 48, 49, 50, 52])
    nexts = rng.sample(range(256), n)
    kids = [K + [b] for b in nexts]

    def obj(pk):
        return dict(pk=pk, val=rng.randint(1, 9), hasU=False, u=[], tags=[], pfx=[], hasUp=False, upfx=[])

    def look(src, ctx=""):
        g.q(src, t, "id", "get", K, ctx=ctx)
        g.q(src, t, "id", "all", [], ctx=ctx)
        g.q(src, t, "id", "prefix", K, ctx=ctx)
        g.scalar(src, t, "num", ctx=ctx)

    when = rng.choice(["first", "middle", "last"])
    cut = rng.choice([3, 15, 16, 47, 48, min(n - 1, 49)])
    tx = g.begin([t])
    if when == "first":
        g.add(op="insert", tx=tx, t=t, obj=obj(K), guard=0, gsym="", w=0)
    for k in kids[:cut]:
        g.add(op="insert", tx=tx, t=t, obj=obj(k), guard=0, gsym="", w=0)
    if when == "middle":
        g.add(op="insert", tx=tx, t=t, obj=obj(K), guard=0, gsym="", w=0)
    look(g.wtx_src(tx))
    s1 = g.commit(tx)
    look(g.snap_src(s1))
    tx = g.begin([t])
    for k in kids[cut:]:
        g.add(op="insert", tx=tx, t=t, obj=obj(k), guard=0, gsym="", w=0)
        if rng.random() < 0.1:
            g.q(g.wtx_src(tx), t, "id", "get", K)
    if when == "last":
        g.add(op="insert", tx=tx, t=t, obj=obj(K), guard=0, gsym="", w=0)
    look(g.wtx_src(tx))
    if rng.random() < 0.2:
        g.abort(tx)
        s2 = g.snap()
        look(g.snap_src(s2), ctx="postabort")
        return g.finish()
    s2 = g.commit(tx)
    look(g.snap_src(s2))
    look(g.snap_src(s1))
    # shrink back below the thresholds
    tx = g.begin([t])
    for k in rng.sample(kids, rng.choice([1, 2, 3, n - 16, n - 3])):
        g.add(op="delete", tx=tx, t=t, obj=obj(k), guard=0, gsym="", w=0)
    g.add(op=rng.choice(["modify", "cas", "delete", "insert"]), tx=tx, t=t, obj=obj(K), guard=0, gsym="cur", w=0)
    look(g.wtx_src(tx))
    s3 = g.commit(tx)
    look(g.snap_src(s3))
    look(g.snap_src(s2))
    return g.finish()


def gen_c06_fan(rng, mode):
    """Watch channels on wide inner nodes of the index trees: a key K with 15..18 or 47..50 extensions (the node kind
    thresholds), watchers on Prefix(K), on Get of an absent extension and on the extensions themselves; one extension
    is deleted (the node shrinks, possibly into a smaller node kind), later the absent one is inserted."""
    g = DBGen(rng, mode)
    g.add(op="config", nilempty=False)
    t = g.newtable()
    g.watch_budget = 200
    K = rng.choice([[97], [0], [97, 98]])
    n = rng.choice([15, 16, 17, 17, 18, 47, 48, 49, 49, 50])
    nexts = sorted(rng.sample(range(1, 255), n))
    kids = [K + [b] for b in nexts]
    absent = K + [rng.choice([b for b in range(1, 255) if b not in nexts])]

    def obj(pk):
        return dict(pk=pk, val=rng.randint(1, 9), hasU=False, u=[], tags=[], pfx=[], hasUp=False, upfx=[])

    tx = g.begin([t])
    g.add(op="insert", tx=tx, t=t, obj=obj([K[0] + 1]), guard=0, gsym="", w=0)     # keeps K's node off the root
    if rng.random() < 0.7:
        g.add(op="insert", tx=tx, t=t, obj=obj(K), guard=0, gsym="", w=0)
    for k in kids:
        g.add(op="insert", tx=tx, t=t, obj=obj(k), guard=0, gsym="", w=0)
    g.commit(tx)

    def watches():
        s = g.snap()
        src = g.snap_src(s)
        g.q(src, t, "id", "prefix", K, watch=True)
        g.q(src, t, "id", "get", absent, watch=True)
        g.q(src, t, "id", "list", absent, watch=True)
        g.q(src, t, "id", "get", kids[0], watch=True)
        g.q(src, t, "id", "prefix", K[:-1], watch=True)

    watches()
    victim = rng.choice([kids[0], kids[n // 2], kids[-1]])
    tx = g.begin([t])
    g.add(op="delete", tx=tx, t=t, obj=obj(victim), guard=0, gsym="", w=0)
    g.commit(tx)
    g.chans()
    watches()
    tx = g.begin([t])
    g.add(op="insert", tx=tx, t=t, obj=obj(absent), guard=0, gsym="", w=0)
    if rng.random() < 0.5:
        g.add(op="delete", tx=tx, t=t, obj=obj(kids[1]), guard=0, gsym="", w=0)
    g.commit(tx)
    g.chans()
    return g.finish()


def gen_c06_merge(rng, mode):
    """A key that is a strict prefix of other keys and sits on a non-root inner node with a single (inner) child:
    ONE transaction deletes it (the child is merged into its place) and then inserts, replaces or deletes
    something below the merged node, with no read in between; watchers on absent keys below the node, on the
    prefixes ending at it and on the keys themselves must be woken by that commit."""
    g = DBGen(rng, mode)
    g.add(op="config", nilempty=False)
    t = g.newtable()
    g.watch_budget = 200
    a = rng.choice([97, 5, 200])
    P = [a, a + 1]                      # the key on the inner node
    C = P + [a + 2]                     # common prefix of the keys below it
    nkids = rng.choice([2, 2, 3])
    kids = [C + [i + 1] for i in range(nkids)]
    newkid = C + [nkids + 1]
    other = [[a + 7], [a, a + 9]][:rng.randint(1, 2)]     # keeps P's node off the root / gives it a sibling

    def obj(pk):
        return dict(pk=pk, val=rng.randint(1, 9), hasU=rng.random() < 0.5, u=pk + [1], tags=[], pfx=[], hasUp=False, upfx=[])

    ins = [P] + kids + other
    rng.shuffle(ins)
    for i in range(0, len(ins), 3):
        tx = g.begin([t])
        for pk in ins[i:i + 3]:
            g.add(op="insert", tx=tx, t=t, obj=obj(pk), guard=0, gsym="", w=0)
        g.commit(tx)
    s = g.snap()
    src = g.snap_src(s)
    for pk in [newkid, C, C + [99], P + [77]]:
        g.q(src, t, "id", "get", pk, watch=True)
        if rng.random() < 0.5:
            g.q(src, t, "u", "get", pk + [1], watch=True)
    for pk in [P, C, P[:1], kids[0]]:
        g.q(src, t, "id", "prefix", pk, watch=True)
        if rng.random() < 0.5:
            g.q(src, t, "id", "list", pk, watch=True)
    g.q(src, t, "id", "get", kids[0], watch=True)
    g.q(src, t, "id", "get", kids[-1], watch=True)
    tx = g.begin([t])
    g.add(op="delete", tx=tx, t=t, obj=obj(P), guard=0, gsym="", w=0)
    follow = rng.choice(["insert", "replace", "delete", "insert"])
    if follow == "insert":
        g.add(op="insert", tx=tx, t=t, obj=obj(newkid), guard=0, gsym="", w=0)
    elif follow == "replace":
        g.add(op="insert", tx=tx, t=t, obj=obj(kids[0]), guard=0, gsym="", w=0)
    else:
        g.add(op="delete", tx=tx, t=t, obj=obj(kids[-1]), guard=0, gsym="", w=0)
    g.commit(tx)
    g.chans()
    return g.finish()


def gen_c06_big(rng, mode):
    """One transaction that replaces/deletes 30-140 objects (the set of channels to close at commit grows past the
    64 entries up to which the index transaction reuses it), watchers on some of them, on absent keys and on
    prefixes; then a small transaction."""
    g = DBGen(rng, mode)
    g.add(op="config", nilempty=False)
    t = g.newtable()
    g.watch_budget = 200
    n = rng.choice([30, 64, 65, 66, 70, 100, 140])
    keys = [[1 + i // 12, 1 + i % 12] for i in range(n)]

    def obj(pk):
        return dict(pk=pk, val=rng.randint(1, 9), hasU=False, u=[], tags=[], pfx=[], hasUp=False, upfx=[])

    tx = g.begin([t])
    for k in keys:
        g.add(op="insert", tx=tx, t=t, obj=obj(k), guard=0, gsym="", w=0)
    g.commit(tx)
    for rnd in range(2):
        s = g.snap()
        src = g.snap_src(s)
        for _ in range(rng.randint(3, 7)):
            k = rng.choice(keys)
            r = rng.random()
            if r < 0.6:
                g.q(src, t, "id", "get", rng.choice([k, k + [1], [99]]), watch=True)
            else:
                g.q(src, t, "id", "prefix", k[:rng.randint(0, 2)], watch=True)
        tx = g.begin([t])
        for k in (keys if rnd == 0 else rng.sample(keys, rng.randint(1, 3))):
            g.add(op="insert" if rng.random() < 0.75 else "delete", tx=tx, t=t, obj=obj(k), guard=0, gsym="", w=0)
        g.commit(tx)
        g.chans()
    return g.finish()


MODES = {
    "c06merge": gen_c06_merge, "c06big": gen_c06_big,
    "c06fan": gen_c06_fan,
    "dbfan": gen_dbfan,
    "derive": gen_derive,
    "c01dense": gen_c01_dense, "c02dense": gen_c01_dense,
    "c06dense": gen_c06_dense,
    "gcwindow": gen_gcwindow,
    "c06inner": gen_c06_inner,
    "lpmshared": gen_lpm_shared, "c06lpm": lambda rng, mode: gen_lpm_shared(rng, "c06"),
    "c18": gen_c18,
    "kf_l": gen_kf_rejected_only, "kf_n": gen_kf_zero_guard,
    "c01": gen_general, "c02": gen_general, "c03": gen_general, "c04": gen_general, "c06": gen_general,
    "c09": gen_general, "c07": gen_iter, "c08": gen_iter, "c19": gen_init,
}


def generate(mode, n, seed):
    rng = random.Random(seed)
    return [MODES[mode](rng, mode) for _ in range(n)]
