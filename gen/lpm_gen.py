"""Shaped script generator for drv_lpm (C13)."""
import random


def bits_of(val, n, width=16):
    return [(val >> (width - 1 - i)) & 1 for i in range(n)]


def domain(rng, width):
    """A clustered set of prefixes plus query prefixes diverging at every bit position."""
    bases = [rng.getrandbits(width)]
    # siblings sharing long common prefixes with the first base
    for _ in range(rng.randint(1, 3)):
        flip = rng.randint(0, width - 1)
        bases.append(bases[0] ^ (1 << flip))
    if rng.random() < 0.5:
        bases.append(rng.getrandbits(width))
    lens = sorted(set([0, 1, 2, 7, 8, 9, width - 1, width] + [rng.randint(0, width) for _ in range(3)]))
    lens = [n for n in lens if n <= width]
    prefixes = []
    for b in bases:
        for n in rng.sample(lens, rng.randint(2, min(6, len(lens)))):
            p = bits_of(b, n, width)
            if p not in prefixes:
                prefixes.append(p)
    queries = list(prefixes)
    for p in prefixes:
        if p:
            queries.append(p[:rng.randint(0, len(p) - 1)])          # ancestor
        if len(p) < width:
            queries.append(p + [rng.randint(0, 1) for _ in range(rng.randint(1, width - len(p)))])  # descendant
        for i in range(len(p)):                                        # diverging at bit i
            if rng.random() < 0.4:
                q = list(p)
                q[i] ^= 1
                queries.append(q[:rng.randint(i + 1, len(q))])
    full = [bits_of(b, width, width) for b in bases]
    for b in bases:
        for _ in range(2):
            full.append(bits_of(b ^ (1 << rng.randint(0, width - 1)), width, width))
    full.append(bits_of(rng.getrandbits(width), width, width))
    uniq = []
    for q in queries:
        if q not in uniq:
            uniq.append(q)
    return prefixes, uniq, full


def gen(rng):
    width = rng.choice([16, 16, 16, 8, 24, 10])
    prefixes, queries, full = domain(rng, width)
    ops = []
    nt = nx = nf = 0
    tries, iters, done_txns = [], [], []

    def trie_src(t):
        return {"kind": "trie", "id": t}

    def txn_src(x):
        return {"kind": "txn", "id": x}

    def reads(src, n, stored):
        nonlocal nf
        for _ in range(n):
            r = rng.random()
            junk = rng.random() < 0.3
            if r < 0.25:
                # Lookup is specified for full-length keys and stored prefixes
                key = rng.choice(full) if rng.random() < 0.7 or not stored else rng.choice(sorted(stored))
                ops.append(dict(op="lookup", s=src, p=list(key), junk=junk))
            elif r < 0.4:
                ops.append(dict(op="exact", s=src, p=rng.choice(queries), junk=junk))
            elif r < 0.65:
                nf += 1
                iters.append(nf)
                ops.append(dict(op="prefix", s=src, p=rng.choice(queries), f=nf, junk=junk))
            elif r < 0.85:
                nf += 1
                iters.append(nf)
                ops.append(dict(op="lowerbound", s=src, p=rng.choice(queries), f=nf, junk=junk))
            elif r < 0.95:
                nf += 1
                iters.append(nf)
                ops.append(dict(op="all", s=src, f=nf))
            else:
                ops.append(dict(op="len", s=src))

    def requery(n):
        for _ in range(n):
            r = rng.random()
            if r < 0.5 and tries:
                t = rng.choice(tries)
                reads(trie_src(t), 1, content[t])
            elif iters:
                ops.append(dict(op=rng.choice(["next", "iterall"]), f=rng.choice(iters)))

    content = {}
    nt += 1
    ops.append(dict(op="new", t=nt))
    tries.append(nt)
    content[nt] = set()
    cur = nt
    for _ in range(rng.randint(2, 5)):
        base = cur if rng.random() < 0.7 else rng.choice(tries)
        if done_txns and rng.random() < 0.3:
            x = rng.choice(done_txns)
            done_txns.remove(x)
            ops.append(dict(op="reuse", x=x, t=base))
        else:
            nx += 1
            x = nx
            ops.append(dict(op="begin", x=x, t=base))
        m = set(content[base])
        for _ in range(rng.randint(1, 9)):
            r = rng.random()
            if r < 0.5:
                p = rng.choice(prefixes)
                ops.append(dict(op="insert", x=x, p=p, v=rng.randint(1, 9), junk=rng.random() < 0.3))
                m.add(tuple(p))
            elif r < 0.75:
                p = rng.choice(prefixes) if rng.random() < 0.8 else rng.choice(queries)
                ops.append(dict(op="delete", x=x, p=p, junk=rng.random() < 0.3))
                m.discard(tuple(p))
            elif r < 0.93:
                reads(txn_src(x), 1, m)
            else:
                requery(1)
        if rng.random() < 0.8:
            nt += 1
            ops.append(dict(op="commit", x=x, t=nt))
            tries.append(nt)
            content[nt] = m
            done_txns.append(x)
            if base == cur:
                cur = nt
        else:
            ops.append(dict(op="abandon", x=x))
        requery(rng.randint(1, 5))
    for t in tries:
        nf += 1
        ops.append(dict(op="all", s=trie_src(t), f=nf))
    for f in iters[-5:]:
        ops.append(dict(op="iterall", f=f))
    return ops


def gen_deep(rng):
    """Deep tries: a 'comb' of nested prefixes b^i (1-b) of length i+1 (plus the spine b^j itself now and then), up to
    64 levels, so that a descent to the far end leaves one pending sibling per level.  Range queries from every depth,
    consumed both at once and element by element; deletions thin the comb out and the queries are repeated."""
    width = rng.choice([40, 48, 64])
    depth = rng.randint(30, width)
    b = rng.randint(0, 1)
    comb = [[b] * i + [1 - b] for i in range(depth)]
    spine = [[b] * j for j in sorted(rng.sample(range(0, depth + 1), rng.randint(0, 4)))]
    keys = comb + [k for k in spine if k not in comb]
    rng.shuffle(keys)
    queries = [[b] * j for j in (0, 1, depth // 2, depth - 1, depth, min(width, depth + 3))]
    queries += [rng.choice(comb) for _ in range(3)] + [[1 - b], [b] * 5 + [1 - b] * 2]
    ops = [dict(op="new", t=1)]
    nt, nx, nf = 1, 0, 0
    iters = []

    def queries_on(src, n):
        nonlocal nf
        for _ in range(n):
            nf += 1
            iters.append(nf)
            r = rng.random()
            if r < 0.6:
                ops.append(dict(op="lowerbound", s=src, p=rng.choice(queries), f=nf, junk=rng.random() < 0.3))
            elif r < 0.85:
                ops.append(dict(op="prefix", s=src, p=rng.choice(queries), f=nf, junk=rng.random() < 0.3))
            else:
                ops.append(dict(op="all", s=src, f=nf))
            if rng.random() < 0.5:
                for _ in range(rng.randint(1, 4)):
                    ops.append(dict(op="next", f=nf))
                ops.append(dict(op="iterall", f=nf))

    nx += 1
    ops.append(dict(op="begin", x=nx, t=nt))
    for k in keys:
        ops.append(dict(op="insert", x=nx, p=k, v=rng.randint(1, 9), junk=rng.random() < 0.3))
    queries_on({"kind": "txn", "id": nx}, 2)
    nt += 1
    ops.append(dict(op="commit", x=nx, t=nt))
    queries_on({"kind": "trie", "id": nt}, rng.randint(3, 6))
    for _ in range(rng.randint(1, 2)):
        nx += 1
        ops.append(dict(op="begin", x=nx, t=nt))
        for k in rng.sample(keys, rng.randint(1, max(1, len(keys) // 3))):
            ops.append(dict(op="delete", x=nx, p=k, junk=False))
        queries_on({"kind": "txn", "id": nx}, 2)
        nt += 1
        ops.append(dict(op="commit", x=nx, t=nt))
        queries_on({"kind": "trie", "id": nt}, rng.randint(2, 4))
        queries_on({"kind": "trie", "id": nt - 1}, 1)
    for f in iters[-4:]:
        ops.append(dict(op="iterall", f=f))
    return ops


def generate(n, seed, mode="shaped"):
    rng = random.Random(seed)
    return [(gen_deep if mode == "deep" else gen)(rng) for _ in range(n)]
