"""Scenarios for drv_ws (C20): from TLC (all scenarios of the bounded model) and random larger ones."""
import random


def from_tlc(sc):
    """sc = [{op: scenario, mem: [...], closeAt: {..} or [..], tc, kind, settle, t0}] as printed by GenWatchSet."""
    s = sc[0]
    ca = s["closeAt"]
    n = len(ca)
    if isinstance(ca, dict):
        arr = [ca[str(i)] for i in range(1, n + 1)]
    else:
        arr = list(ca)
    never = 1000000
    return [dict(op="scenario", n=n, members=sorted(s["mem"]), closeAt=[-1 if x >= never else x for x in arr],
                 tc=-1 if s["tc"] >= never else s["tc"], kind=s["kind"], settle=s["settle"], t0=s["t0"],
                 again=0, settle2=0, unit=10)]


def gen(rng):
    n = rng.randint(1, 6)
    members = [i for i in range(1, n + 1) if rng.random() < 0.75]
    horizon = rng.choice([5, 20, 100])
    close_at = [rng.choice([-1, 0, rng.randint(0, horizon), rng.randint(0, horizon)]) for _ in range(n)]
    tc = rng.choice([-1, rng.randint(0, horizon), rng.randint(0, 2 * horizon)])
    # the call must return: either the context ends or some member closes
    if tc < 0 and not any(close_at[m - 1] >= 0 for m in members):
        tc = rng.randint(0, horizon)
    settle = rng.choice([0, 0, rng.randint(1, horizon)])
    again = rng.choice([0, 0, rng.randint(1, horizon)])
    if again:
        # the second call must return as well
        if tc < 0:
            tc = 3 * horizon
    # the set may be filled through Merge, and its membership may change between the two calls (Add, Merge of another
    # set -- also of channels that are closed already or were returned by the first call -- and Clear)
    between = []
    if again and rng.random() < 0.6:
        for _ in range(rng.randint(1, 2)):
            op = rng.choice(["add", "merge", "merge", "clear"])
            between.append(dict(op=op, ids=[] if op == "clear" else rng.sample(range(1, n + 1), rng.randint(1, n))))
    return [dict(op="scenario", n=n, members=members, closeAt=close_at, tc=tc, kind=rng.choice(["canceled", "deadline"]),
                 settle=settle, t0=rng.choice([0, 0, rng.randint(0, horizon)]), again=again,
                 settle2=rng.choice([0, rng.randint(1, horizon)]), unit=rng.choice([1, 10, 1000]),
                 via=rng.choice(["", "", "merge"]), between=between)]


def generate(n, seed):
    rng = random.Random(seed)
    return [gen(rng) for _ in range(n)]
