"""Environment scripts for drv_rec (C14, C15, C16): user writes, per-call failure patterns, writes injected
while Update is in flight, WaitUntilReconciled probes, pruning; every script ends at quiescence."""
import random


def config(rng, idle=False, refresh=None):
    if refresh is None:
        refresh = 0 if idle or rng.random() < 0.8 else rng.choice([150, 400, 1000])
    return dict(op="config", round=rng.choice([1, 2, 3, 1000, 1000]), batch=rng.random() < 0.35,
                minb=rng.choice([50, 100]), maxb=rng.choice([200, 800, 3200]), limit_ms=rng.choice([1, 1, 5]),
                prune_ms=rng.choice([0, 0, 700]), idle=idle, refresh_ms=refresh,
                # objects carry a reconciler.StatusSet (several reconcilers per object) instead of a single Status
                statusset=rng.random() < 0.4,
                # ... into which that many other reconcilers have written before ours sees a new object
                setnames=rng.choice([0, 0, 1, 2, 3, 3]))


def finish(ops, cfg, outstanding):
    settle = (outstanding + 2) * (cfg["maxb"] + 100) + 1500
    ops.append(dict(op="quiesce", ms=settle))
    ops.append(dict(op="wait", back=0, q=True, ms=20000))
    ops.append(dict(op="quiesce", ms=cfg["maxb"] + 500))
    return ops


def gen_general(rng):
    cfg = config(rng)
    ops = [cfg]
    K = rng.randint(1, 4)
    outstanding = 0
    inited = False
    for _ in range(rng.randint(4, 16)):
        r = rng.random()
        k = rng.randint(1, K)
        if r < 0.30:
            ops.append(dict(op="user", kind="upsert", k=k))
        elif r < 0.38:
            ops.append(dict(op="user", kind="delete", k=k))
        elif r < 0.43:
            ops.append(dict(op="user", kind="reinsert", k=k))
        elif r < 0.48:
            ops.append(dict(op="user", kind="status2", k=k))
        elif r < 0.62 and outstanding < 6:
            n = rng.randint(1, 3)
            outstanding += n
            ops.append(dict(op="fail", k=k, n=n, on=rng.choice(["update", "update", "delete"])))
        elif r < 0.74:
            # a user write while Update/Delete of k is in flight (between the operation and its status commit)
            ops.append(dict(op="inject", k=k, on=rng.choice(["update", "update", "delete"]), nth=rng.randint(1, 2),
                            do=rng.choice(["upsert", "delete", "reinsert", "status2"])))
        elif r < 0.86:
            ops.append(dict(op="sleep", ms=rng.choice([0, 1, 2, 10, cfg["minb"], cfg["minb"] * 2 + 5, cfg["maxb"] + 10])))
        elif r < 0.93:
            ops.append(dict(op="wait", back=rng.randint(0, 3), q=False))
        elif r < 0.97 and not inited:
            ops.append(dict(op="initdone"))
            inited = True
        else:
            ops.append(dict(op="prune"))
    if not inited and rng.random() < 0.7:
        ops.append(dict(op="initdone"))
    if rng.random() < 0.5:
        ops.append(dict(op="sleep", ms=5))
        ops.append(dict(op="prune"))
    return finish(ops, cfg, outstanding)


def gen_backoff(rng):
    """One failing object on an otherwise idle reconciler: exact pacing (minimum, non-shrinking, cap, reset)."""
    cfg = config(rng, idle=True)
    cfg["round"] = 1000
    cfg["prune_ms"] = 0
    ops = [cfg]
    n1 = rng.randint(1, 7)
    ops.append(dict(op="user", kind="upsert", k=1))
    ops.append(dict(op="fail", k=1, n=n1, on="update"))
    ops.append(dict(op="sleep", ms=(n1 + 1) * (cfg["maxb"] + 50)))
    ops.append(dict(op="wait", back=0, q=True, ms=1000))
    # change the object (or delete it): the backoff starts over
    n2 = rng.randint(1, 4)
    if rng.random() < 0.6:
        ops.append(dict(op="user", kind="upsert", k=1))
        ops.append(dict(op="fail", k=1, n=n2, on="update"))
    else:
        ops.append(dict(op="user", kind="delete", k=1))
        ops.append(dict(op="fail", k=1, n=n2, on="delete"))
    # probe in the middle of the retries
    ops.append(dict(op="sleep", ms=rng.choice([1, cfg["minb"], cfg["minb"] * 3])))
    ops.append(dict(op="wait", back=0, q=True, ms=50))
    return finish(ops, cfg, n2)


def gen_inflight(rng):
    """C15 window: every kind of user write placed while Update/UpdateBatch is in flight, every outcome."""
    cfg = config(rng)
    ops = [cfg]
    K = rng.randint(1, 3)
    outstanding = 0
    for k in range(1, K + 1):
        ops.append(dict(op="user", kind="upsert", k=k))
    ops.append(dict(op="sleep", ms=20))
    for _ in range(rng.randint(1, 4)):
        k = rng.randint(1, K)
        do = rng.choice(["upsert", "delete", "reinsert", "status2", "status2"])
        ops.append(dict(op="inject", k=k, on="update", nth=1, do=do))
        if rng.random() < 0.4 and outstanding < 4:
            ops.append(dict(op="fail", k=k, n=1, on="update"))
            outstanding += 1
        ops.append(dict(op="user", kind=rng.choice(["upsert", "status2", "reinsert"]), k=k))
        ops.append(dict(op="sleep", ms=rng.choice([1, 5, 50, cfg["maxb"] + 20])))
        if rng.random() < 0.3:
            ops.append(dict(op="wait", back=rng.randint(0, 2), q=False))
    return finish(ops, cfg, outstanding)


def gen_retrywindow(rng):
    """A user change while a failed operation waits in the retry queue: upsert/delete fails, its error status is
    committed, then -- inside the backoff window -- the object is updated, deleted, re-inserted or touched by
    another writer (possibly twice), with and without further failures; single and batch mode."""
    cfg = config(rng)
    cfg["maxb"] = rng.choice([800, 3200])
    ops = [cfg]
    K = rng.randint(1, 2)
    outstanding = 0
    for k in range(1, K + 1):
        ops.append(dict(op="user", kind="upsert", k=k))
    if rng.random() < 0.3:
        ops.append(dict(op="sleep", ms=20))
    for _ in range(rng.randint(1, 3)):
        k = rng.randint(1, K)
        first = rng.choice(["update", "update", "delete"])
        n = rng.randint(1, 2)
        outstanding += n
        if first == "delete":
            ops.append(dict(op="fail", k=k, n=n, on="delete"))
            ops.append(dict(op="user", kind="delete", k=k))
        else:
            ops.append(dict(op="fail", k=k, n=n, on="update"))
            ops.append(dict(op="user", kind="upsert", k=k))
        # let the failure happen and its status be committed, stay inside the backoff window
        ops.append(dict(op="sleep", ms=rng.choice([2, 5, cfg["minb"] // 2, cfg["minb"] + 1])))
        for _ in range(rng.randint(1, 2)):
            ops.append(dict(op="user", kind=rng.choice(["delete", "upsert", "reinsert", "status2", "delete"]), k=k))
            ops.append(dict(op="sleep", ms=rng.choice([0, 1, 3, cfg["minb"]])))
        if rng.random() < 0.3:
            ops.append(dict(op="wait", back=0, q=False))
        ops.append(dict(op="sleep", ms=rng.choice([1, cfg["minb"] * 3, cfg["maxb"] + 50])))
    return finish(ops, cfg, outstanding)


def gen_lowwatermark(rng):
    """Several objects failing at the same time, WaitUntilReconciled probes at idle moments between their
    retries: the reported low watermark must be the oldest failed change."""
    cfg = config(rng, refresh=0)
    cfg["round"] = rng.choice([1, 1000])
    cfg["prune_ms"] = 0
    cfg["maxb"] = rng.choice([800, 3200])
    ops = [cfg]
    K = rng.randint(2, 4)
    outstanding = 0
    for k in range(1, K + 1):
        n = rng.randint(2, 4)
        outstanding += n
        ops.append(dict(op="fail", k=k, n=n, on="update"))
        ops.append(dict(op="user", kind="upsert", k=k))
        if rng.random() < 0.5:
            ops.append(dict(op="sleep", ms=rng.choice([1, 30, cfg["minb"]])))
    if rng.random() < 0.6:
        # the published progress read every millisecond across several retries (a value that is wrong only until
        # the next round shows up here)
        ops.append(dict(op="probes", n=rng.choice([150, 300, 450]), ms=1))
    for _ in range(rng.randint(3, 8)):
        ops.append(dict(op="sleep", ms=rng.choice([5, cfg["minb"], cfg["minb"] * 2 + 1, cfg["minb"] * 4 + 3, 450])))
        ops.append(dict(op="wait", back=0, q=True, ms=1))
        if rng.random() < 0.2:
            k = rng.randint(1, K)
            ops.append(dict(op="user", kind=rng.choice(["upsert", "delete"]), k=k))
    return finish(ops, cfg, outstanding)


def gen_refresh(rng):
    """Refresh loop enabled: objects that have been Done for the refresh interval are marked Refreshing and updated
    again; failures of such updates, user writes and status-only writes while they are in flight, deletions, and
    sleeps spanning several intervals."""
    cfg = config(rng, refresh=rng.choice([120, 300, 700]))
    cfg["prune_ms"] = rng.choice([0, 0, 500])
    ops = [cfg]
    K = rng.randint(1, 4)
    outstanding = 0
    for k in range(1, K + 1):
        ops.append(dict(op="user", kind="upsert", k=k))
    if rng.random() < 0.7:
        ops.append(dict(op="initdone"))
    for _ in range(rng.randint(3, 10)):
        r = rng.random()
        k = rng.randint(1, K)
        if r < 0.35:
            ops.append(dict(op="sleep", ms=rng.choice([cfg["refresh_ms"] // 2, cfg["refresh_ms"] + 3, cfg["refresh_ms"] * 2 + 7, 5])))
        elif r < 0.5 and outstanding < 5:
            n = rng.randint(1, 2)
            outstanding += n
            ops.append(dict(op="fail", k=k, n=n, on="update"))
        elif r < 0.7:
            ops.append(dict(op="inject", k=k, on="update", nth=rng.randint(1, 3),
                            do=rng.choice(["upsert", "delete", "reinsert", "status2", "status2"])))
        elif r < 0.8:
            if rng.random() < 0.5:
                ops.append(dict(op="user", kind=rng.choice(["upsert", "delete", "reinsert", "status2"]), k=k))
            else:
                # a user write committed at the moment the refresh loop asks for the table lock, i.e. after
                # whatever it decided before holding the lock
                ops.append(dict(op="injectrefresh", k=k, do=rng.choice(["upsert", "delete", "reinsert", "status2"])))
        elif r < 0.9:
            ops.append(dict(op="wait", back=rng.randint(0, 2), q=False))
        else:
            ops.append(dict(op="prune"))
    return finish(ops, cfg, outstanding)


def gen_sharedset(rng):
    """C15 with several reconcilers per object (reconciler.StatusSet): another reconciler's status write lands
    while the FIRST Update of a new object is in flight, i.e. while our reconciler is not in the set yet and its
    (stale) result adds a name to a set whose memory older and newer versions may share."""
    cfg = config(rng)
    cfg["statusset"] = True
    cfg["setnames"] = rng.choice([0, 1, 2, 3, 3, 3])
    ops = [cfg]
    K = rng.randint(1, 3)
    outstanding = 0
    for _ in range(rng.randint(1, 5)):
        k = rng.randint(1, K)
        for _ in range(rng.randint(1, 2)):
            ops.append(dict(op="inject", k=k, on="update", nth=rng.randint(1, 2),
                            do=rng.choice(["status2", "status2", "status2", "upsert", "delete", "reinsert"])))
        if rng.random() < 0.3 and outstanding < 4:
            ops.append(dict(op="fail", k=k, n=1, on="update"))
            outstanding += 1
        ops.append(dict(op="user", kind=rng.choice(["reinsert", "reinsert", "upsert"]), k=k))
        if rng.random() < 0.5:
            ops.append(dict(op="user", kind="status2", k=k))
        ops.append(dict(op="sleep", ms=rng.choice([1, 5, 50, cfg["maxb"] + 20])))
        if rng.random() < 0.3:
            ops.append(dict(op="wait", back=rng.randint(0, 2), q=False))
    return finish(ops, cfg, outstanding)


def generate(kind, n, seed):
    rng = random.Random(seed)
    fn = {"sharedset": gen_sharedset, "refresh": gen_refresh, "lowwatermark": gen_lowwatermark, "general": gen_general, "backoff": gen_backoff, "inflight": gen_inflight, "retrywindow": gen_retrywindow}[kind]
    return [fn(rng) for _ in range(n)]
