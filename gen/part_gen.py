"""Shaped script generators for drv_part (C11: persistence/branching without notification;
C12: linear histories with watch channels).  Seeded; every script is valid for PartTree.tla."""
import random

EPS = []


def key_pools(rng):
    pools = {}
    pools["mixed"] = [[], [97], [97, 98], [97, 98, 99], [98], [98, 97]]
    pools["binary"] = [[]] + [[a] for a in (0, 1, 255)] + [[a, b] for a in (0, 1, 255) for b in (0, 1, 255)] \
        + [[0, 0, 0], [0, 0, 1], [255, 255, 255], [1, 0, 255]]
    pools["chain"] = [[], [5], [5, 5], [5, 5, 5], [5, 5, 5, 5], [5, 5, 6], [5, 6], [6]]
    return pools


def fan_keys(prefix, n, rng):
    lasts = rng.sample(range(256), n) if n < 256 else list(range(256))
    return [prefix + [b] for b in lasts]


class PartScript:
    def __init__(self, rng):
        self.rng = rng
        self.ops = []
        self.nt = self.nx = self.nf = self.nw = 0
        self.trees = []      # committed tree ids (and clones)
        self.iters = []      # iterator ids (may be exhausted)
        self.head = 0

    def new_tree_id(self):
        self.nt += 1
        return self.nt

    def new_txn_id(self):
        self.nx += 1
        return self.nx

    def new_iter_id(self):
        self.nf += 1
        return self.nf

    def new_chan_id(self):
        self.nw += 1
        return self.nw

    def add(self, **kw):
        self.ops.append(kw)


def tree_src(t):
    return {"kind": "tree", "id": t}


def txn_src(x):
    return {"kind": "txn", "id": x}


def read_ops(ps, src, keys, n, watch=False):
    """n random read operations on a source."""
    rng = ps.rng
    for _ in range(n):
        r = rng.random()
        k = rng.choice(keys)
        if r < 0.3:
            ps.add(op="get", s=src, k=k, w=ps.new_chan_id() if watch and rng.random() < 0.7 else 0)
        elif r < 0.5:
            f = ps.new_iter_id()
            ps.iters.append(f)
            ps.add(op="prefix", s=src, k=k[:rng.randint(0, len(k))], f=f,
                   w=ps.new_chan_id() if watch and rng.random() < 0.7 else 0)
        elif r < 0.7:
            f = ps.new_iter_id()
            ps.iters.append(f)
            kk = list(k)
            if rng.random() < 0.3 and kk:
                kk[-1] = (kk[-1] + rng.choice([-1, 1])) % 256
            ps.add(op="lowerbound", s=src, k=kk, f=f)
        elif r < 0.8:
            f = ps.new_iter_id()
            ps.iters.append(f)
            ps.add(op="iterator", s=src, f=f)
        elif r < 0.9:
            if src["kind"] == "txn" and rng.random() < 0.6:
                # iterate the transaction while the loop body writes to it
                ps.add(op="allw", x=src["id"], at=rng.randint(1, 3), kind=rng.choice(["insert", "delete"]),
                       k=rng.choice(keys), v=rng.randint(1, 9))
            else:
                ps.add(op="all", s=src)
        else:
            ps.add(op="len", s=src)


def requery_retained(ps, keys, n):
    rng = ps.rng
    for _ in range(n):
        r = rng.random()
        if r < 0.5 and ps.trees:
            read_ops(ps, tree_src(rng.choice(ps.trees)), keys, 1)
        elif ps.iters:
            f = rng.choice(ps.iters)
            if rng.random() < 0.5:
                ps.add(op="next", f=f)
            else:
                ps.add(op="iterall", f=f)


def write_op(ps, x, keys, watch=False):
    rng = ps.rng
    k = rng.choice(keys)
    r = rng.random()
    w = ps.new_chan_id() if watch and rng.random() < 0.5 else 0
    if r < 0.45:
        ps.add(op="insert", x=x, k=k, v=rng.randint(1, 9), w=w)
    elif r < 0.6:
        ps.add(op="modify", x=x, k=k, v=rng.randint(1, 9), w=w)
    else:
        ps.add(op="delete", x=x, k=k)


def gen_c11(rng, shape=None):
    """Persistence: branching histories, clones and iterators inside transactions, abandoned
    transactions, every retained object re-read later.  No notification (DESIGN 9)."""
    ps = PartScript(rng)
    pools = key_pools(rng)
    shape = shape or rng.choice(["mixed", "binary", "chain", "fan", "fan", "mixed"])
    t0 = ps.new_tree_id()
    ps.add(op="new", t=t0, ro=rng.random() < 0.2)
    ps.trees.append(t0)
    cur = t0
    if shape == "fan":
        prefix = rng.choice([[], [7], [7, 7]])
        n = rng.choice([3, 4, 5, 15, 16, 17, 18, 47, 48, 49, 50, 255, 256])
        keys = fan_keys(prefix, n, rng)
        if rng.random() < 0.5:
            keys.append(list(prefix))
        others = [[9], [7, 8] if prefix != [7] else [8]]
        # grow across the thresholds in 1..3 transactions, reading in between
        rng.shuffle(keys)
        chunks = rng.randint(1, 3)
        step = max(1, len(keys) // chunks)
        allkeys = keys + others
        for i in range(0, len(keys), step):
            x = ps.new_txn_id()
            ps.add(op="begin", x=x, t=cur, lin=False)
            for j, k in enumerate(keys[i:i + step]):
                ps.add(op="insert", x=x, k=k, v=rng.randint(1, 9), w=0)
                if rng.random() < 0.03:
                    read_ops(ps, txn_src(x), allkeys, 1)
                if rng.random() < 0.02:
                    c = ps.new_tree_id()
                    ps.add(op="clone", x=x, t=c)
                    ps.trees.append(c)
            t = ps.new_tree_id()
            ps.add(op="commit", x=x, t=t)
            ps.trees.append(t)
            cur = t
            requery_retained(ps, allkeys, 3)
        read_ops(ps, tree_src(cur), allkeys, 4)
        # shrink back below every threshold, possibly from a branch
        rng.shuffle(keys)
        x = ps.new_txn_id()
        ps.add(op="begin", x=x, t=cur, lin=False)
        for j, k in enumerate(keys):
            if j >= len(keys) - rng.randint(0, 3):
                break
            ps.add(op="delete", x=x, k=k)
            if rng.random() < 0.04:
                read_ops(ps, txn_src(x), allkeys, 1)
            if rng.random() < 0.02:
                c = ps.new_tree_id()
                ps.add(op="clone", x=x, t=c)
                ps.trees.append(c)
        if rng.random() < 0.8:
            t = ps.new_tree_id()
            ps.add(op="commit", x=x, t=t)
            ps.trees.append(t)
        else:
            ps.add(op="abandon", x=x)
        requery_retained(ps, allkeys, 8)
        for t in ps.trees[-4:]:
            ps.add(op="all", s=tree_src(t))
            ps.add(op="len", s=tree_src(t))
        return ps.ops

    keys = pools[shape]
    for _ in range(rng.randint(2, 5)):
        base = cur if rng.random() < 0.7 else rng.choice(ps.trees)
        x = ps.new_txn_id()
        ps.add(op="begin", x=x, t=base, lin=False)
        for _ in range(rng.randint(1, 8)):
            r = rng.random()
            if r < 0.6:
                write_op(ps, x, keys)
            elif r < 0.85:
                read_ops(ps, txn_src(x), keys, 1)
            elif r < 0.93:
                c = ps.new_tree_id()
                ps.add(op="clone", x=x, t=c)
                ps.trees.append(c)
            else:
                requery_retained(ps, keys, 1)
        if rng.random() < 0.8:
            t = ps.new_tree_id()
            ps.add(op="commit", x=x, t=t)
            ps.trees.append(t)
            if base == cur:
                cur = t
        else:
            ps.add(op="abandon", x=x)
        requery_retained(ps, keys, rng.randint(1, 5))
    for t in ps.trees:
        ps.add(op="all", s=tree_src(t))
    for f in ps.iters[-6:]:
        ps.add(op="iterall", f=f)
    return ps.ops


def gen_c12(rng):
    """Linear history with watch channels on present/absent keys and prefixes, in both watch
    modes; Commit+Notify, CommitAndNotify, one-shot operations and abandoned transactions."""
    ps = PartScript(rng)
    pools = key_pools(rng)
    shape = rng.choice(["mixed", "binary", "chain", "fan16", "mixed"])
    if shape == "fan16":
        keys = fan_keys([7], rng.choice([4, 5, 16, 17]), rng) + [[7], [], [8]]
    else:
        keys = pools[shape]
    t0 = ps.new_tree_id()
    ps.add(op="new", t=t0, ro=rng.random() < 0.3)
    head = t0
    # seed some content
    x = ps.new_txn_id()
    ps.add(op="begin", x=x, t=head, lin=True)
    for _ in range(rng.randint(0, 6)):
        ps.add(op="insert", x=x, k=rng.choice(keys), v=rng.randint(1, 9),
               w=ps.new_chan_id() if rng.random() < 0.3 else 0)
    head = ps.new_tree_id()
    ps.add(op="commitnotify", x=x, t=head)
    for _ in range(rng.randint(2, 5)):
        # watches on the head tree
        for _ in range(rng.randint(1, 5)):
            r = rng.random()
            k = rng.choice(keys)
            if r < 0.45:
                ps.add(op="get", s=tree_src(head), k=k, w=ps.new_chan_id())
            elif r < 0.85:
                f = ps.new_iter_id()
                ps.add(op="prefix", s=tree_src(head), k=k[:rng.randint(0, len(k))], f=f, w=ps.new_chan_id())
            else:
                ps.add(op="rootwatch", s=tree_src(head), w=ps.new_chan_id())
        r = rng.random()
        if r < 0.15:
            nt = ps.new_tree_id()
            ps.add(op=rng.choice(["tinsert", "tmodify", "tdelete"]), t=head, k=rng.choice(keys),
                   v=rng.randint(1, 9), nt=nt, lin=True)
            head = nt
            continue
        x = ps.new_txn_id()
        ps.add(op="begin", x=x, t=head, lin=True)
        for _ in range(rng.randint(0, 5)):
            r2 = rng.random()
            if r2 < 0.7:
                write_op(ps, x, keys, watch=True)
            elif r2 < 0.8:
                ps.add(op="get", s=txn_src(x), k=rng.choice(keys), w=ps.new_chan_id())
            elif r2 < 0.9:
                ps.add(op="get", s=tree_src(head), k=rng.choice(keys), w=ps.new_chan_id())
            else:
                ps.add(op="rootwatch", s=rng.choice([txn_src(x), tree_src(head)]), w=ps.new_chan_id())
        r = rng.random()
        if r < 0.4:
            nt = ps.new_tree_id()
            ps.add(op="commit", x=x, t=nt)
            if rng.random() < 0.3:
                ps.add(op="get", s=tree_src(nt), k=rng.choice(keys), w=ps.new_chan_id())
            ps.add(op="notify", x=x)
            head = nt
        elif r < 0.8:
            nt = ps.new_tree_id()
            ps.add(op="commitnotify", x=x, t=nt)
            head = nt
        else:
            ps.add(op="abandon", x=x)
    ps.add(op="chans")
    return ps.ops


def gen_c12_inner(rng):
    """Inner nodes that hold a value but lost their children (insert a chain, delete its deepest keys),
    then watches on those keys, their prefixes and absent extensions, then delete / re-extend them."""
    ps = PartScript(rng)
    b = rng.choice([5, 97, 0, 255])
    chain = [[b] * n for n in range(1, rng.randint(3, 5))]
    side = [[b + 1 if b < 255 else 1], [b, (b + 1) % 256]]
    keys = chain + side + [[]]
    t0 = ps.new_tree_id()
    ps.add(op="new", t=t0, ro=rng.random() < 0.15)
    head = t0

    def txn(writes):
        nonlocal head
        x = ps.new_txn_id()
        ps.add(op="begin", x=x, t=head, lin=True)
        for (kind, k) in writes:
            if kind == "i":
                ps.add(op="insert", x=x, k=k, v=rng.randint(1, 9), w=ps.new_chan_id() if rng.random() < 0.3 else 0)
            else:
                ps.add(op="delete", x=x, k=k)
        nt = ps.new_tree_id()
        if rng.random() < 0.5:
            ps.add(op="commitnotify", x=x, t=nt)
        else:
            ps.add(op="commit", x=x, t=nt)
            ps.add(op="notify", x=x)
        head = nt

    def watches():
        for k in rng.sample(keys, rng.randint(2, len(keys))):
            ps.add(op="get", s=tree_src(head), k=k, w=ps.new_chan_id())
            f = ps.new_iter_id()
            ps.add(op="prefix", s=tree_src(head), k=k, f=f, w=ps.new_chan_id())
        for k in chain[-2:]:
            ps.add(op="get", s=tree_src(head), k=k + [rng.choice([1, 122])], w=ps.new_chan_id())
        ps.add(op="rootwatch", s=tree_src(head), w=ps.new_chan_id())

    ins = [("i", k) for k in chain] + [("i", k) for k in side if rng.random() < 0.7]
    rng.shuffle(ins)
    for i in range(0, len(ins), rng.randint(1, 3)):
        txn(ins[i:i + 3])
    # delete the deepest key(s): their parents become childless inner nodes (or get compressed)
    for k in reversed(chain[-rng.randint(1, 2):]):
        watches()
        txn([("d", k)])
    # now change what is left, one key per transaction
    rest = [k for k in chain if True]
    rng.shuffle(rest)
    for k in rest[:rng.randint(1, len(rest))]:
        watches()
        txn([(rng.choice(["d", "d", "i"]), k)])
    watches()
    txn([("i", chain[-1] + [7])])
    ps.add(op="chans")
    return ps.ops


def gen_c12_dense(rng):
    """Dense key universe (all strings over a 2-3 letter alphabet up to length 4): every structural case of the
    radix tree (values on inner nodes, single-child chains, forks below them) arises; multi-write transactions
    with watches on present/absent keys and prefixes taken before each of them."""
    import itertools
    ps = PartScript(rng)
    alpha = rng.choice([[1, 2], [1, 2], [1, 2, 3], [0, 255]])
    maxlen = 4 if len(alpha) == 2 else 3
    universe = [[]] + [list(x) for n in range(1, maxlen + 1) for x in itertools.product(alpha, repeat=n)]
    t0 = ps.new_tree_id()
    ps.add(op="new", t=t0, ro=rng.random() < 0.1)
    head = t0
    x = ps.new_txn_id()
    ps.add(op="begin", x=x, t=head, lin=True)
    for k in rng.sample(universe, rng.randint(3, min(12, len(universe)))):
        ps.add(op="insert", x=x, k=k, v=rng.randint(1, 9), w=0)
    head = ps.new_tree_id()
    ps.add(op="commitnotify", x=x, t=head)
    for _ in range(rng.randint(3, 7)):
        for k in rng.sample(universe, rng.randint(3, 7)):
            r = rng.random()
            if r < 0.5:
                ps.add(op="get", s=tree_src(head), k=k, w=ps.new_chan_id())
            else:
                f = ps.new_iter_id()
                ps.add(op="prefix", s=tree_src(head), k=k, f=f, w=ps.new_chan_id())
        if rng.random() < 0.3:
            ps.add(op="rootwatch", s=tree_src(head), w=ps.new_chan_id())
        x = ps.new_txn_id()
        ps.add(op="begin", x=x, t=head, lin=True)
        for _ in range(rng.randint(1, 4)):
            k = rng.choice(universe)
            r = rng.random()
            if r < 0.45:
                ps.add(op="insert", x=x, k=k, v=rng.randint(1, 9), w=ps.new_chan_id() if rng.random() < 0.2 else 0)
            elif r < 0.55:
                ps.add(op="modify", x=x, k=k, v=rng.randint(1, 9), w=0)
            else:
                ps.add(op="delete", x=x, k=k)
            if rng.random() < 0.1:
                f = ps.new_iter_id()
                ps.add(op="prefix", s=txn_src(x), k=rng.choice(universe), f=f, w=0)
        r = rng.random()
        if r < 0.85:
            nt = ps.new_tree_id()
            if rng.random() < 0.5:
                ps.add(op="commitnotify", x=x, t=nt)
            else:
                ps.add(op="commit", x=x, t=nt)
                ps.add(op="notify", x=x)
            head = nt
        else:
            ps.add(op="abandon", x=x)
    ps.add(op="all", s=tree_src(head))
    ps.add(op="chans")
    return ps.ops


PAIR_UNIVERSE = [[1], [1, 1], [1, 1, 2, 1], [1, 1, 2, 2], [1, 1, 2, 3], [9]]
PAIR_WATCH = PAIR_UNIVERSE + [[1, 1, 2], [1, 1, 2, 9], [], [1, 1, 2, 1, 5]]


def pairs_script(initial, w1, w2, mode):
    """Tree holding `initial`; Get and Prefix watches on every key of the universe, on the fork prefix and on
    absent extensions; then ONE transaction with the two writes w1, w2; commit + notify."""
    ps = PartScript(random.Random(0))
    t0 = ps.new_tree_id()
    ps.add(op="new", t=t0, ro=False)
    x = ps.new_txn_id()
    ps.add(op="begin", x=x, t=t0, lin=True)
    for k in initial:
        ps.add(op="insert", x=x, k=k, v=1, w=0)
    head = ps.new_tree_id()
    ps.add(op="commitnotify", x=x, t=head)
    for k in PAIR_WATCH:
        ps.add(op="get", s=tree_src(head), k=k, w=ps.new_chan_id())
        f = ps.new_iter_id()
        ps.add(op="prefix", s=tree_src(head), k=k, f=f, w=ps.new_chan_id())
    x = ps.new_txn_id()
    ps.add(op="begin", x=x, t=head, lin=True)
    for (kind, k) in (w1, w2):
        if kind == "i":
            ps.add(op="insert", x=x, k=k, v=2, w=0)
        else:
            ps.add(op="delete", x=x, k=k)
    nt = ps.new_tree_id()
    if mode == 0:
        ps.add(op="commitnotify", x=x, t=nt)
    else:
        ps.add(op="commit", x=x, t=nt)
        ps.add(op="notify", x=x)
    ps.add(op="all", s=tree_src(nt))
    return ps.ops


def gen_c12_pairs(n, seed):
    """Bounded-exhaustive: every initial subset of a 6-key universe with a fork below a valued inner node x
    every ordered pair of writes in one transaction (sampled down to n when n is smaller than the space)."""
    import itertools
    rng = random.Random(seed)
    writes = [(kd, k) for kd in ("i", "d") for k in PAIR_UNIVERSE + [[1, 1, 2, 9]]]
    space = []
    for mask in range(1, 1 << len(PAIR_UNIVERSE)):
        initial = [PAIR_UNIVERSE[i] for i in range(len(PAIR_UNIVERSE)) if mask >> i & 1]
        for w1 in writes:
            for w2 in writes:
                if w1 != w2:
                    space.append((initial, w1, w2))
    if n < len(space):
        space = rng.sample(space, n)
    return [pairs_script(i, a, b, rng.randint(0, 1)) for (i, a, b) in space]


def persist_pairs_script(initial, w1, w2, mode):
    """Persistence counterpart of pairs_script: tree T1 holds `initial`; ONE transaction performs the two writes
    with no query in between (a query would freeze the nodes it owns) and is committed (mode 0), abandoned (1),
    or cloned after the first write, the second write going to a transaction started from the clone (2: the clone,
    the original transaction and the tree it commits must not see that write).  Afterwards every key of the
    universe, every prefix and a full scan are read from T1 again, and from every other tree that exists."""
    ps = PartScript(random.Random(0))
    t0 = ps.new_tree_id()
    ps.add(op="new", t=t0, ro=False)
    x = ps.new_txn_id()
    ps.add(op="begin", x=x, t=t0, lin=False)
    for k in initial:
        ps.add(op="insert", x=x, k=k, v=1, w=0)
    t1 = ps.new_tree_id()
    ps.add(op="commit", x=x, t=t1)
    srcs = [tree_src(t1)]

    def wr(xx, w):
        kind, k = w
        if kind == "i":
            ps.add(op="insert", x=xx, k=k, v=2, w=0)
        elif kind == "m":
            ps.add(op="modify", x=xx, k=k, v=3, w=0)
        else:
            ps.add(op="delete", x=xx, k=k)

    x = ps.new_txn_id()
    ps.add(op="begin", x=x, t=t1, lin=False)
    wr(x, w1)
    if mode == 2:
        c = ps.new_tree_id()
        ps.add(op="clone", x=x, t=c)
        srcs.append(tree_src(c))
        y = ps.new_txn_id()
        ps.add(op="begin", x=y, t=c, lin=False)
        wr(y, w2)
        # the clone and the original transaction, read while the derived transaction is pending
        for k in PAIR_UNIVERSE:
            ps.add(op="get", s=tree_src(c), k=k, w=0)
        ps.add(op="all", s=tree_src(c))
        ps.add(op="len", s=tree_src(c))
        ps.add(op="all", s=txn_src(x))
        t3 = ps.new_tree_id()
        ps.add(op="commit", x=y, t=t3)
        srcs.append(tree_src(t3))
        t2 = ps.new_tree_id()
        ps.add(op="commit", x=x, t=t2)
        srcs.append(tree_src(t2))
    else:
        wr(x, w2)
        if mode == 0:
            t2 = ps.new_tree_id()
            ps.add(op="commit", x=x, t=t2)
            srcs.append(tree_src(t2))
        else:
            ps.add(op="abandon", x=x)
    for src in srcs:
        for k in PAIR_WATCH:
            ps.add(op="get", s=src, k=k, w=0)
        for k in ([1, 1], [1, 1, 2], [1], []):
            f = ps.new_iter_id()
            ps.add(op="prefix", s=src, k=k, f=f, w=0)
        f = ps.new_iter_id()
        ps.add(op="lowerbound", s=src, k=[1, 1, 2], f=f)
        ps.add(op="all", s=src)
        ps.add(op="len", s=src)
    return ps.ops


def gen_c11_pairs(n, seed):
    """Bounded-exhaustive like gen_c12_pairs, with Modify as a third kind of write and the three endings."""
    rng = random.Random(seed)
    writes = [(kd, k) for kd in ("i", "d", "m") for k in PAIR_UNIVERSE + [[1, 1, 2, 9]]]
    space = []
    for mask in range(1, 1 << len(PAIR_UNIVERSE)):
        initial = [PAIR_UNIVERSE[i] for i in range(len(PAIR_UNIVERSE)) if mask >> i & 1]
        for w1 in writes:
            for w2 in writes:
                for mode in (0, 1, 2):
                    space.append((initial, w1, w2, mode))
    if n < len(space):
        space = rng.sample(space, n)
    return [persist_pairs_script(i, a, b, m) for (i, a, b, m) in space]


def boundary_script(n, victim, leaf, edge, prefix, watch, rng):
    """One node with n children (branch bytes spread over 0..255, the ends 0x00 and 0xff included when `edge`),
    optionally holding a value itself; one committed transaction removes the child at position `victim`
    (first/middle/last) and, in `twice` mode, a second one; every key (present and removed), every prefix and a
    full scan are then read from the transaction, the new tree and the old tree, and a key is inserted again."""
    ps = PartScript(rng)
    if edge:
        bytes_ = sorted(set([0, 255] + [(i * 255) // max(1, n - 1) for i in range(n)]))[:n]
        while len(bytes_) < n:
            c = rng.randint(1, 254)
            if c not in bytes_:
                bytes_.append(c)
        bytes_ = sorted(bytes_)
        if 255 not in bytes_:
            bytes_[-1] = 255
    else:
        bytes_ = sorted(rng.sample(range(1, 255), n))
    keys = [prefix + [b_] for b_ in bytes_]
    deep = [keys[0] + [1], keys[-1] + [2]]          # children below the two ends: the ends are inner nodes
    allkeys = keys + deep + ([list(prefix)] if leaf else []) + [prefix + [bytes_[0] + 1 if bytes_[0] < 254 else 7]]
    t0 = ps.new_tree_id()
    ps.add(op="new", t=t0, ro=False)
    x = ps.new_txn_id()
    ps.add(op="begin", x=x, t=t0, lin=True)
    order = keys + (deep if n % 2 else [])
    rng.shuffle(order)
    for k in order:
        ps.add(op="insert", x=x, k=k, v=rng.randint(1, 9), w=0)
    if leaf:
        ps.add(op="insert", x=x, k=list(prefix), v=5, w=0)
    t1 = ps.new_tree_id()
    ps.add(op="commitnotify" if watch else "commit", x=x, t=t1)
    vi = {"first": 0, "middle": n // 2, "last": n - 1}[victim]
    x2 = ps.new_txn_id()
    ps.add(op="begin", x=x2, t=t1, lin=True)
    if watch:
        for k in (keys[vi], keys[(vi + 1) % n], list(prefix)):
            ps.add(op="get", s=tree_src(t1), k=k, w=ps.new_chan_id())
            f = ps.new_iter_id()
            ps.add(op="prefix", s=tree_src(t1), k=k, f=f, w=ps.new_chan_id())
    ps.add(op="delete", x=x2, k=keys[vi])
    for src in (txn_src(x2),):
        for k in allkeys:
            ps.add(op="get", s=src, k=k, w=0)
        f = ps.new_iter_id()
        ps.add(op="prefix", s=src, k=keys[vi], f=f, w=0)
        ps.add(op="all", s=src)
    t2 = ps.new_tree_id()
    ps.add(op="commitnotify" if watch else "commit", x=x2, t=t2)
    for src in (tree_src(t2), tree_src(t1)):
        for k in allkeys:
            ps.add(op="get", s=src, k=k, w=0)
        for k in (keys[vi], list(prefix), keys[-1]):
            f = ps.new_iter_id()
            ps.add(op="prefix", s=src, k=k, f=f, w=0)
            f = ps.new_iter_id()
            ps.add(op="lowerbound", s=src, k=k, f=f)
        ps.add(op="all", s=src)
        ps.add(op="len", s=src)
    # write again: the slot that was vacated, and a new branch byte
    x3 = ps.new_txn_id()
    ps.add(op="begin", x=x3, t=t2, lin=True)
    ps.add(op="insert", x=x3, k=keys[vi], v=3, w=0)
    ps.add(op="delete", x=x3, k=keys[(vi + 1) % n])
    t3 = ps.new_tree_id()
    ps.add(op="commitnotify" if watch else "commit", x=x3, t=t3)
    for src in (tree_src(t3), tree_src(t2)):
        for k in allkeys:
            ps.add(op="get", s=src, k=k, w=0)
        ps.add(op="all", s=src)
    return ps.ops


def gen_boundary(n, seed, watch=False):
    """Enumerated: node sizes around every node-kind threshold x victim position x own value x edge bytes."""
    rng = random.Random(seed)
    out = []
    for size in (2, 3, 4, 5, 6, 16, 17, 18, 37, 48, 49, 50):
        for victim in ("first", "middle", "last"):
            for leaf in (False, True):
                for edge in (True, False):
                    out.append(boundary_script(size, victim, leaf, edge, rng.choice([[], [7], [7, 255]]), watch, rng))
    if n < len(out):
        out = rng.sample(out, n)
    return out


def gen_c11_deep(rng):
    """Trees 30-64 levels deep that branch at every level (keys 1^i 2 and 1^i 3 next to the path 1^D): an iterator
    positioned deep in the tree holds one pending set of siblings per level (more than the 32 the implementation
    keeps on its stack).  LowerBound/Prefix/Iterator at various depths, each read several times (All, Next on the
    same iterator) and re-read after later writes."""
    ps = PartScript(rng)
    D = rng.choice([30, 31, 32, 33, 34, 40, 64])
    sib = rng.choice([[2], [2, 3], [2, 3], [0, 2]])
    keys = [[1] * D]
    for i in range(D):
        for b in sib:
            if rng.random() < 0.95:
                keys.append([1] * i + [b])
    t0 = ps.new_tree_id()
    ps.add(op="new", t=t0, ro=rng.random() < 0.3)
    x = ps.new_txn_id()
    ps.add(op="begin", x=x, t=t0, lin=True)
    order = list(keys)
    rng.shuffle(order)
    for k in order:
        ps.add(op="insert", x=x, k=k, v=rng.randint(1, 9), w=0)
    head = ps.new_tree_id()
    ps.add(op="commitnotify", x=x, t=head)
    its = []
    for _ in range(rng.randint(2, 4)):
        d = rng.choice([D, D - 1, D // 2, 33, 32, 1])
        d = max(0, min(D, d))
        f = ps.new_iter_id()
        r = rng.random()
        if r < 0.6:
            ps.add(op="lowerbound", s=tree_src(head), k=[1] * d + rng.choice([[], [0], [1]]), f=f)
        elif r < 0.8:
            ps.add(op="prefix", s=tree_src(head), k=[1] * d, f=f, w=0)
        else:
            ps.add(op="iterator", s=tree_src(head), f=f)
            for _ in range(rng.randint(0, 3)):
                ps.add(op="next", f=f)
        its.append(f)
        ps.add(op="iterall", f=f)
        if rng.random() < 0.5:
            ps.add(op="next", f=f)
    # a later write must not disturb the iterators either
    x = ps.new_txn_id()
    ps.add(op="begin", x=x, t=head, lin=True)
    for k in rng.sample(keys, 3):
        ps.add(op=rng.choice(["insert", "delete"]), x=x, k=k, v=rng.randint(1, 9), w=0)
    nt = ps.new_tree_id()
    ps.add(op="commitnotify", x=x, t=nt)
    for f in its:
        ps.add(op="iterall", f=f)
        ps.add(op="next", f=f)
        ps.add(op="iterall", f=f)
    return ps.ops


def gen_c12_bigtxn(rng):
    """Transactions that change many keys at once (the set of channels to close grows past 64 entries, the
    threshold at which the implementation stops reusing the set): watches on some of the keys and prefixes, one
    transaction replacing/deleting 30-140 keys, Commit then Notify (the order statedb uses) or CommitAndNotify,
    then a small transaction on the same lineage (the transaction object is reused)."""
    ps = PartScript(rng)
    n = rng.choice([30, 60, 64, 65, 66, 70, 100, 140])
    keys = [[1 + i // 12, 1 + i % 12] for i in range(n)]
    t0 = ps.new_tree_id()
    ps.add(op="new", t=t0, ro=rng.random() < 0.15)
    x = ps.new_txn_id()
    ps.add(op="begin", x=x, t=t0, lin=True)
    for k in keys:
        ps.add(op="insert", x=x, k=k, v=rng.randint(1, 9), w=0)
    head = ps.new_tree_id()
    ps.add(op="commitnotify", x=x, t=head)
    for rnd in range(rng.randint(1, 2)):
        for _ in range(rng.randint(3, 8)):
            k = rng.choice(keys)
            r = rng.random()
            if r < 0.6:
                ps.add(op="get", s=tree_src(head), k=rng.choice([k, k + [1], [99]]), w=ps.new_chan_id())
            elif r < 0.9:
                ps.add(op="prefix", s=tree_src(head), k=k[:rng.randint(0, 2)], f=ps.new_iter_id(), w=ps.new_chan_id())
            else:
                ps.add(op="rootwatch", s=tree_src(head), w=ps.new_chan_id())
        x = ps.new_txn_id()
        ps.add(op="begin", x=x, t=head, lin=True)
        m = n if rnd == 0 else rng.randint(1, 3)
        for k in (keys if m == n else rng.sample(keys, m)):
            if rng.random() < 0.75:
                ps.add(op="insert", x=x, k=k, v=rng.randint(1, 9), w=0)
            else:
                ps.add(op="delete", x=x, k=k)
        nt = ps.new_tree_id()
        if rng.random() < 0.75:
            ps.add(op="commit", x=x, t=nt)
            ps.add(op="notify", x=x)
        else:
            ps.add(op="commitnotify", x=x, t=nt)
        head = nt
    ps.add(op="chans")
    return ps.ops


def generate(kind, n, seed):
    if kind == "c12pairs":
        return gen_c12_pairs(n, seed)
    if kind == "c11pairs":
        return gen_c11_pairs(n, seed)
    if kind == "boundary":
        return gen_boundary(n, seed)
    if kind == "boundaryw":
        return gen_boundary(n, seed, watch=True)
    rng = random.Random(seed)
    fn = {"c11": gen_c11, "c12": gen_c12, "c12inner": gen_c12_inner, "c12dense": gen_c12_dense, "c12bigtxn": gen_c12_bigtxn, "c11deep": gen_c11_deep}[kind]
    return [fn(rng) for _ in range(n)]
