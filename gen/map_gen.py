"""Shaped script generator for drv_map (C17): branching histories over part.Map / MapTxn / Set,
including the transitions between the empty, singleton and tree representations."""
import random

KEYS = [[], [97], [97, 98], [97, 98, 99], [98], [98, 97], [122]]


def gen(rng):
    ops = []
    nval = ntx = 0
    maps, sets, txns = [], [], []

    def newval():
        nonlocal nval
        nval += 1
        return nval

    j = newval()
    ops.append(dict(op="mnew", j=j))
    maps.append(j)
    if rng.random() < 0.7:
        j = newval()
        vs = rng.sample(KEYS, rng.randint(0, 3))
        ops.append(dict(op="snew", vs=vs, j=j))
        sets.append(j)
    keys = KEYS if rng.random() < 0.7 else KEYS[:3]
    for _ in range(rng.randint(6, 30)):
        r = rng.random()
        k = rng.choice(keys)
        if r < 0.16:
            i = rng.choice(maps[-3:] if rng.random() < 0.7 else maps)
            j = newval()
            ops.append(dict(op="mset", i=i, k=k, v=rng.randint(1, 9), j=j))
            maps.append(j)
        elif r < 0.26:
            i = rng.choice(maps[-3:] if rng.random() < 0.7 else maps)
            j = newval()
            ops.append(dict(op="mdelete", i=i, k=k, j=j))
            maps.append(j)
        elif r < 0.32:
            i = rng.choice(maps)
            j = newval()
            ks = rng.sample(keys, rng.randint(0, 3))
            ops.append(dict(op="mfrom", i=i, kvs=[[kk, rng.randint(1, 9)] for kk in ks], j=j))
            maps.append(j)
        elif r < 0.50:
            i = rng.choice(maps)
            q = rng.choice(["mget", "mlen", "mall", "mprefix", "mlower"])
            op = dict(op=q, i=i, k=k)
            if q == "mall":
                op["take"] = rng.choice([-1, -1, 1, 2, 0])
            ops.append(op)
        elif r < 0.55 and len(maps) >= 2:
            ops.append(dict(op=rng.choice(["meqkeys", "mslow"]), i=rng.choice(maps), j=rng.choice(maps)))
        elif r < 0.59:
            j = newval()
            ops.append(dict(op=rng.choice(["mjson", "myaml"]), i=rng.choice(maps), j=j))
            maps.append(j)
        elif r < 0.64 and len(txns) < 3:
            ntx += 1
            ops.append(dict(op="mtxn", i=rng.choice(maps), x=ntx))
            txns.append(ntx)
        elif r < 0.80 and txns:
            x = rng.choice(txns)
            q = rng.choice(["tset", "tset", "tdel", "tget", "tlen", "tall", "tprefix", "tlower", "tcommit", "tcommit"])
            op = dict(op=q, x=x, k=k, v=rng.randint(1, 9))
            if q == "tcommit":
                j = newval()
                op["j"] = j
                maps.append(j)
            ops.append(op)
        elif r < 0.88 and sets:
            i = rng.choice(sets)
            j = newval()
            ops.append(dict(op=rng.choice(["sset", "sdelete"]), i=i, k=k, j=j))
            sets.append(j)
        elif r < 0.94 and sets:
            q = rng.choice(["shas", "slen", "sall", "sall"])
            op = dict(op=q, i=rng.choice(sets), k=k)
            if q == "sall":
                op["take"] = rng.choice([-1, -1, 1, 2, 0])
            ops.append(op)
        elif r < 0.98 and len(sets) >= 1:
            q = rng.choice(["sunion", "sdiff", "sequal"])
            op = dict(op=q, i=rng.choice(sets), i2=rng.choice(sets))
            if q != "sequal":
                j = newval()
                op["j"] = j
                sets.append(j)
            ops.append(op)
        elif sets:
            j = newval()
            ops.append(dict(op=rng.choice(["sjson", "syaml"]), i=rng.choice(sets), j=j))
            sets.append(j)
    # every value obtained so far must still read the same
    for i in maps:
        ops.append(dict(op="mall", i=i, take=-1))
        ops.append(dict(op="mlen", i=i))
    for i in sets:
        ops.append(dict(op="sall", i=i, take=-1))
    return ops


def gen_fanout(rng):
    """Maps and sets whose tree crosses the node-size thresholds (4/16/48 children) in both directions below a key
    that is itself in the collection (the inner node carries a leaf): n keys P+b for distinct bytes b, plus P,
    then deletions and re-insertions around the threshold through Map.Delete, MapTxn.Delete, Set.Delete and
    Set.Difference; every version is re-read at the end."""
    ops = []
    nval = ntx = 0
    maps, sets = [], []

    def newval():
        nonlocal nval
        nval += 1
        return nval

    P = rng.choice([[], [], [97], [97, 98]])
    n = rng.choice([4, 5, 6, 16, 17, 17, 18, 48, 49, 49, 50])
    bs = rng.sample(range(33, 127), n)
    keys = [P + [b] for b in bs]
    for b in rng.sample(bs, min(3, n)):
        if rng.random() < 0.5:
            keys.append(P + [b, 99])
    allkeys = keys + ([P] if rng.random() < 0.85 else [])
    j0 = newval()
    ops.append(dict(op="mnew", j=j0))
    j = newval()
    ops.append(dict(op="mfrom", i=j0, kvs=[[k, rng.randint(1, 9)] for k in allkeys], j=j))
    maps.append(j)
    if rng.random() < 0.7:
        j = newval()
        ops.append(dict(op="snew", vs=allkeys, j=j))
        sets.append(j)
    for _ in range(rng.randint(3, 10)):
        r = rng.random()
        k = rng.choice(keys)
        if r < 0.35:
            i = rng.choice(maps[-2:])
            j = newval()
            ops.append(dict(op="mdelete", i=i, k=k, j=j))
            maps.append(j)
        elif r < 0.45:
            i = rng.choice(maps[-2:])
            j = newval()
            ops.append(dict(op="mset", i=i, k=rng.choice([k, P, P + [rng.randrange(33, 127)]]), v=rng.randint(1, 9), j=j))
            maps.append(j)
        elif r < 0.60:
            ntx += 1
            ops.append(dict(op="mtxn", i=rng.choice(maps[-2:]), x=ntx))
            for kk in rng.sample(keys, rng.randint(1, 3)):
                ops.append(dict(op="tdel", x=ntx, k=kk, v=0))
            ops.append(dict(op=rng.choice(["tget", "tlen", "tall"]), x=ntx, k=P, v=0))
            j = newval()
            ops.append(dict(op="tcommit", x=ntx, k=P, v=0, j=j))
            maps.append(j)
        elif r < 0.75 and sets:
            i = rng.choice(sets[-2:])
            j = newval()
            ops.append(dict(op="sdelete", i=i, k=k, j=j))
            sets.append(j)
        elif r < 0.85 and sets:
            j = newval()
            ops.append(dict(op="snew", vs=rng.sample(keys, rng.randint(1, 3)), j=j))
            sets.append(j)
            j2 = newval()
            ops.append(dict(op="sdiff", i=sets[-2], i2=j, j=j2))
            sets.append(j2)
        else:
            i = rng.choice(maps)
            ops.append(dict(op=rng.choice(["mget", "mprefix", "mlower"]), i=i, k=rng.choice([P, k])))
            if sets:
                ops.append(dict(op="shas", i=rng.choice(sets), k=P))
    if len(maps) >= 2:
        ops.append(dict(op="meqkeys", i=maps[0], j=maps[-1]))
        ops.append(dict(op="mslow", i=maps[-2], j=maps[-1]))
    if rng.random() < 0.3:
        j = newval()
        ops.append(dict(op=rng.choice(["mjson", "myaml"]), i=maps[-1], j=j))
        maps.append(j)
    for i in maps:
        ops.append(dict(op="mall", i=i, take=-1))
        ops.append(dict(op="mlen", i=i))
        ops.append(dict(op="mget", i=i, k=P))
    for i in sets:
        ops.append(dict(op="sall", i=i, take=-1))
        ops.append(dict(op="slen", i=i, k=P))
        ops.append(dict(op="shas", i=i, k=P))
    return ops


def generate(n, seed):
    rng = random.Random(seed)
    return [gen(rng) for _ in range(n)]


def generate_fanout(n, seed):
    rng = random.Random(seed)
    return [gen_fanout(rng) for _ in range(n)]
