"""Configurations for drv_sched: actors (write transactions over overlapping/disjoint table sets,
readers, a table registrar, iterator close, optionally the graveyard collector) + a schedule."""
import random
from db_gen import DBGen, PKS


def simple_obj(g, pi, val):
    return dict(pk=PKS[pi], val=val, hasU=False, u=[], tags=[], pfx=[], hasUp=False, upfx=[])


def writer_prog(g, rng, tabs, ntx=1, marker=0):
    prog = []
    for _ in range(ntx):
        g.ntx += 1
        tx = g.ntx
        req = list(tabs)
        rng.shuffle(req)
        if rng.random() < 0.2:
            req.append(rng.choice(req))
        prog.append(dict(op="wtxn", tx=tx, tables=req))
        for t in tabs:
            # every transaction writes into each of its tables (all-or-none is then observable)
            for _ in range(rng.randint(1, 2)):
                r = rng.random()
                pi = rng.randrange(5)
                if r < 0.6:
                    prog.append(dict(op="insert", tx=tx, t=t, obj=simple_obj(g, pi, rng.randint(1, 9)), guard=0, gsym="", w=0))
                elif r < 0.75:
                    prog.append(dict(op="modify", tx=tx, t=t, obj=simple_obj(g, pi, rng.randint(1, 9)), guard=0, gsym="", w=0))
                elif r < 0.9:
                    prog.append(dict(op="delete", tx=tx, t=t, obj=simple_obj(g, pi, 0), guard=0, gsym="", w=0))
                else:
                    prog.append(dict(op="cas", tx=tx, t=t, obj=simple_obj(g, pi, rng.randint(1, 9)), guard=0, gsym="cur", w=0))
            prog.append(dict(op="insert", tx=tx, t=t, obj=simple_obj(g, 5, (marker + tx) % 10 + 1), guard=0, gsym="", w=0))
            if rng.random() < 0.4:
                prog.append(dict(op="query", src={"kind": "wtxn", "id": tx}, t=t, index="id", q="all", key=[], w=0, ctx="", first=0))
        if rng.random() < 0.25:
            prog.append(dict(op="abort", tx=tx))
        else:
            g.nsnap += 1
            prog.append(dict(op="commit", tx=tx, snap=g.nsnap))
            if rng.random() < 0.7:
                # the snapshot returned by Commit is the state at its own publish, whatever was committed by others
                # before Commit returned
                for t in tabs:
                    prog.append(dict(op="query", src={"kind": "snap", "id": g.nsnap}, t=t, index="id", q="all", key=[], w=0, ctx="", first=0))
                    prog.append(dict(op="rev", src={"kind": "snap", "id": g.nsnap}, t=t, ctx="", first=0))
    return prog


def reader_prog(g, rng, tables, n=2):
    prog = []
    for _ in range(n):
        g.nsnap += 1
        s = g.nsnap
        prog.append(dict(op="snap", id=s))
        for t in tables:
            prog.append(dict(op="query", src={"kind": "snap", "id": s}, t=t, index="id", q="all", key=[], w=0, ctx="", first=0))
            prog.append(dict(op="rev", src={"kind": "snap", "id": s}, t=t, ctx="", first=0))
    return prog


def gen(rng, mode="mixed"):
    g = DBGen(rng, "sched")
    ntab = rng.choice([2, 3, 3, 4])
    for _ in range(ntab):
        g.newtable()
    setup_start = len(g.ops)
    # initial content
    tx = g.begin(list(g.tables))
    for t in g.tables:
        for _ in range(rng.randint(0, 3)):
            g.add(op="insert", tx=tx, t=t, obj=simple_obj(g, rng.randrange(5), rng.randint(1, 9)), guard=0, gsym="", w=0)
    use_init = rng.random() < 0.3
    if use_init:
        g.add(op="reginit", tx=tx, t=0, name="a")
    iters = []
    if rng.random() < 0.5:
        iters.append(g.changes(tx, 0))
    if rng.random() < 0.3:
        iters.append(g.changes(tx, 0))
    g.commit(tx)
    # an aborted transaction that had created an iterator; the dead iterator is closed during setup, by the
    # closing actor, at the end, or never
    dead = None
    if rng.random() < 0.3:
        dt = rng.choice(g.tables)
        tx = g.begin([dt])
        dead = g.changes(tx, dt)
        g.abort(tx)
        if rng.random() < 0.4:
            g.iterclose(dead)
            dead = None
    s = g.snap()
    for t in g.tables:
        g.q(g.snap_src(s), t, "id", "all", [], watch=True)
        g.q(g.snap_src(s), t, "id", "get", PKS[5], watch=True)
        g.q(g.snap_src(s), t, "id", "get", PKS[rng.randrange(5)], watch=True)
    if use_init:
        g.add(op="init", src=g.snap_src(s), t=0, w=g.chan())
    use_gc = bool(iters) and rng.random() < 0.6
    if use_gc:
        # make some graveyard entries collectable so that the collector starts a pass during setup
        tx = g.begin([0])
        g.add(op="insert", tx=tx, t=0, obj=simple_obj(g, 0, 3), guard=0, gsym="", w=0)
        g.add(op="insert", tx=tx, t=0, obj=simple_obj(g, 1, 4), guard=0, gsym="", w=0)
        g.commit(tx)
        tx = g.begin([0])
        g.add(op="delete", tx=tx, t=0, obj=simple_obj(g, 0, 0), guard=0, gsym="", w=0)
        g.add(op="delete", tx=tx, t=0, obj=simple_obj(g, 1, 0), guard=0, gsym="", w=0)
        g.commit(tx)
        for it in iters:
            s2 = g.snap()
            g.next(it, src=g.snap_src(s2), take=-1)
    setup = g.ops
    g.ops = []
    actors = []
    # writers: a mix of overlapping and disjoint table sets (DESIGN 4.7: both are needed)
    nw = rng.choice([2, 2, 3])
    sets = []
    for i in range(nw):
        k = rng.choice([1, 1, 2, 2, ntab])
        sets.append(sorted(rng.sample(g.tables, min(k, ntab))))
    if mode == "disjoint" or rng.random() < 0.3:
        sets[0] = [0]
        sets[1] = [t for t in g.tables if t != 0][:rng.randint(1, ntab - 1)]
    for i, tabs in enumerate(sets):
        actors.append(dict(name=f"W{i+1}", prog=writer_prog(g, rng, tabs, ntx=rng.choice([1, 1, 2]), marker=i * 3)))
    if rng.random() < 0.7:
        actors.append(dict(name="R", prog=reader_prog(g, rng, g.tables, n=rng.randint(1, 3))))
    newt = None
    if rng.random() < 0.4:
        newt = len(g.tables)
        g.ntx += 1
        g.nsnap += 1
        prog = [dict(op="newtable", t=newt), dict(op="wtxn", tx=g.ntx, tables=[newt]),
                dict(op="insert", tx=g.ntx, t=newt, obj=simple_obj(g, 2, 7), guard=0, gsym="", w=0),
                dict(op="commit", tx=g.ntx, snap=g.nsnap)]
        actors.append(dict(name="N", prog=prog))
    cprog = []
    if iters and rng.random() < 0.5:
        it = iters.pop()
        g.iters[it]["st"] = "closed"
        cprog.append(dict(op="iterclose", it=it))
    if dead is not None and rng.random() < 0.6:
        g.iters[dead]["st"] = "closed"
        cprog.append(dict(op="iterclose", it=dead))
        rng.shuffle(cprog)
    if cprog:
        actors.append(dict(name="C", prog=cprog))
    if iters and rng.random() < 0.6:
        # an iterator consumer: snapshots taken at arbitrary gates of the writers (e.g. between the store of the
        # new root and the closing of the watch channels), partial consumption, then a full one
        it = iters[0]
        prog = []
        for j in range(rng.randint(2, 4)):
            g.nsnap += 1
            prog.append(dict(op="snap", id=g.nsnap))
            take = -1 if j > 0 and rng.random() < 0.5 else rng.randint(0, 2)
            prog.append(dict(op="next", it=it, src={"kind": "snap", "id": g.nsnap}, take=take, w=g.chan()))
        actors.append(dict(name="I", prog=prog))
    names = [a["name"] for a in actors] + (["GC"] if use_gc else [])
    # schedule: bursts of one actor, so that it is parked deep inside Commit while others run
    sched = []
    for _ in range(rng.randint(3, 14)):
        a = rng.choice(names)
        sched += [a] * rng.choice([1, 1, 2, 3, 5, 8])
    # finish
    if newt is not None:
        g.tables.append(newt)
        g.tgen[newt] = 0
    for w in list(g.wtx):
        g.wtx.pop(w)
    s = g.snap()
    for t in g.tables:
        g.q(g.snap_src(s), t, "id", "all", [])
        g.scalar(g.snap_src(s), t, "rev")
        g.scalar(g.snap_src(s), t, "num")
    g.chans()
    for it, d in g.iters.items():
        if d["st"] == "open":
            s2 = g.snap()
            g.next(it, src=g.snap_src(s2), take=-1)
            g.next(it, src=g.snap_src(s2), take=-1)
            g.grave(d["t"], quiet=False)
    for it, d in g.iters.items():
        if d["st"] == "open" or (d["st"] == "dead" and rng.random() < 0.5):
            g.iterclose(it)
    finish = g.ops
    return [dict(op="sched", setup=setup, actors=actors, schedule=sched, finish=finish, gc=use_gc, nilempty=False)]


def generate(n, seed, mode="mixed"):
    rng = random.Random(seed)
    return [gen(rng, mode) for _ in range(n)]


# ---------------------------------------------------------------------------------------------
# Schedules generated by TLC from DBImpl.tla (one per transition of its state graph)

TLC_CONFIGS = {
    # cfg name -> (number of initial tables, {actor id: requested tables (1-based)}, aborting ids, registrar id)
    "GenDBImpl2.cfg": (2, {1: [1, 2], 2: [2]}, set(), 3),
    "GenDBImpl3.cfg": (3, {1: [1], 2: [3, 2], 3: [3, 1, 1]}, {3}, 4),
    # actor 3 is the graveyard collector: its scan appears in the schedule as 30 + bit mask of the tables chosen
    "GenDBImplGC.cfg": (2, {1: [1, 2], 2: [2]}, set(), 0),
}
TLC_COLLECTOR = {"GenDBImplGC.cfg": 3}


def from_tlc(rng, cfgname, hist):
    """Harness configuration for one TLC schedule (hist = actor ids)."""
    nt, req, aborting, registrar = TLC_CONFIGS[cfgname]
    g = DBGen(rng, "sched")
    for _ in range(nt):
        g.newtable()
    tx = g.begin(list(g.tables))
    for t in g.tables:
        for _ in range(rng.randint(0, 2)):
            g.add(op="insert", tx=tx, t=t, obj=simple_obj(g, rng.randrange(5), rng.randint(1, 9)), guard=0, gsym="", w=0)
    use_init = rng.random() < 0.5
    if use_init:
        g.add(op="reginit", tx=tx, t=0, name="a")
    collector = TLC_COLLECTOR.get(cfgname, 0)
    gctab = None
    if collector:
        scans = [h for h in hist if h >= 10 * collector]
        if scans:
            mask = scans[0] - 10 * collector
            gctab = [i for i in range(nt) if mask >> i & 1][0]
    it = g.changes(tx, gctab) if gctab is not None else None
    g.commit(tx)
    if gctab is not None:
        # collectable deletions in exactly the table the model's scan chose: the pass starts during the setup and
        # parks at gc.scanned
        tx = g.begin([gctab])
        g.add(op="insert", tx=tx, t=gctab, obj=simple_obj(g, 0, 3), guard=0, gsym="", w=0)
        g.add(op="insert", tx=tx, t=gctab, obj=simple_obj(g, 1, 4), guard=0, gsym="", w=0)
        g.commit(tx)
        tx = g.begin([gctab])
        g.add(op="delete", tx=tx, t=gctab, obj=simple_obj(g, 0, 0), guard=0, gsym="", w=0)
        g.add(op="delete", tx=tx, t=gctab, obj=simple_obj(g, 1, 0), guard=0, gsym="", w=0)
        g.commit(tx)
        s2 = g.snap()
        g.next(it, src=g.snap_src(s2), take=-1)
    s = g.snap()
    for t in g.tables:
        g.q(g.snap_src(s), t, "id", "all", [], watch=True)
        g.q(g.snap_src(s), t, "id", "get", PKS[5], watch=True)
    if use_init:
        g.add(op="init", src=g.snap_src(s), t=0, w=g.chan())
    setup = g.ops
    g.ops = []
    actors, names = [], {}
    if collector:
        names[collector] = "GC"
        hist = [collector if h >= 10 * collector else h for h in hist]
    done_marked = False
    for a, tabs in sorted(req.items()):
        g.ntx += 1
        tx = g.ntx
        prog = [dict(op="wtxn", tx=tx, tables=[t - 1 for t in tabs])]
        for t in sorted(set(tabs)):
            prog.append(dict(op="insert", tx=tx, t=t - 1, obj=simple_obj(g, rng.randrange(5), rng.randint(1, 9)), guard=0, gsym="", w=0))
            prog.append(dict(op="insert", tx=tx, t=t - 1, obj=simple_obj(g, 5, a), guard=0, gsym="", w=0))
            if use_init and t == 1 and not done_marked and a not in aborting:
                prog.append(dict(op="markdone", tx=tx, t=0, name="a"))
                done_marked = True
        prog.append(dict(op="query", src={"kind": "wtxn", "id": tx}, t=sorted(set(tabs))[0] - 1, index="id", q="all", key=[], w=0, ctx="", first=0))
        if a in aborting:
            prog.append(dict(op="abort", tx=tx))
        else:
            g.nsnap += 1
            prog.append(dict(op="commit", tx=tx, snap=g.nsnap))
        names[a] = f"W{a}"
        actors.append(dict(name=names[a], prog=prog))
    newt = None
    if registrar:
        newt = nt
        g.ntx += 1
        g.nsnap += 1
        actors.append(dict(name="N", prog=[
            dict(op="newtable", t=newt), dict(op="wtxn", tx=g.ntx, tables=[newt]),
            dict(op="insert", tx=g.ntx, t=newt, obj=simple_obj(g, 2, 7), guard=0, gsym="", w=0),
            dict(op="commit", tx=g.ntx, snap=g.nsnap)]))
        names[registrar] = "N"
    sched = [names[a] for a in hist]
    if newt is not None:
        g.tables.append(newt)
        g.tgen[newt] = 0
    for w in list(g.wtx):
        g.wtx.pop(w)
    s = g.snap()
    for t in g.tables:
        g.q(g.snap_src(s), t, "id", "all", [])
        g.scalar(g.snap_src(s), t, "rev")
    g.chans()
    if gctab is not None:
        for it2, d in g.iters.items():
            if d["st"] == "open":
                s2 = g.snap()
                g.next(it2, src=g.snap_src(s2), take=-1)
                g.next(it2, src=g.snap_src(s2), take=-1)
                g.iterclose(it2)
    return [dict(op="sched", setup=setup, actors=actors, schedule=sched, finish=g.ops, gc=gctab is not None, nilempty=False)]


# ---------------------------------------------------------------------------------------------
# Directed schedules: park one committer at each gate inside WriteTxn/Commit/Abort, run every other
# actor as far as it gets (to completion or until it blocks), then let the first one finish.

GATES = ["wtxn.begin", "smu", "wtxn.locked", "wtxn.rootloaded", "commit.begin", "commit.indexes", "commit.rootlocked", "commit.rootbuilt",
         "commit.stored", "commit.rootunlocked", "commit.notified", "commit.tablesunlocked", "commit.initclosed"]


def steps_to(gate, ntab):
    """Number of releases that bring a fresh writer over ntab distinct tables to `gate`."""
    order = ["wtxn.begin"] + ["smu"] * ntab + ["wtxn.locked", "wtxn.rootloaded", "commit.begin", "commit.indexes",
                                              "commit.rootlocked", "commit.rootbuilt", "commit.stored", "commit.rootunlocked",
                                              "commit.notified", "commit.tablesunlocked", "commit.initclosed"]
    if gate == "smu":
        return 2
    return order.index(gate) + 1


def gen_directed(rng):
    g = DBGen(rng, "sched")
    ntab = rng.choice([2, 3])
    for _ in range(ntab):
        g.newtable()
    tx = g.begin(list(g.tables))
    for t in g.tables:
        for _ in range(rng.randint(0, 2)):
            g.add(op="insert", tx=tx, t=t, obj=simple_obj(g, rng.randrange(5), rng.randint(1, 9)), guard=0, gsym="", w=0)
    use_init = rng.random() < 0.4
    if use_init:
        g.add(op="reginit", tx=tx, t=0, name="a")
    g.commit(tx)
    s = g.snap()
    for t in g.tables:
        g.q(g.snap_src(s), t, "id", "all", [], watch=True)
        g.q(g.snap_src(s), t, "id", "get", PKS[5], watch=True)
    if use_init:
        g.add(op="init", src=g.snap_src(s), t=0, w=g.chan())
    setup = g.ops
    g.ops = []
    # A: the committer that gets parked; B: the others
    a_tabs = sorted(rng.sample(g.tables, rng.choice([1, 1, 2])))
    a_prog = writer_prog(g, rng, a_tabs, ntx=1, marker=1)
    a_prog = [o for o in a_prog if o["op"] != "abort"]
    if not any(o["op"] == "commit" for o in a_prog):
        g.nsnap += 1
        a_prog.append(dict(op="commit", tx=a_prog[0]["tx"], snap=g.nsnap))
    if use_init and 0 in a_tabs:
        ci = [i for i, o in enumerate(a_prog) if o["op"] == "commit"][0]
        a_prog.insert(ci, dict(op="markdone", tx=a_prog[0]["tx"], t=0, name="a"))
    if rng.random() < 0.2:
        # a transaction that writes no object but changes the table entry all the same (a change iterator is
        # registered, an initializer completed): it holds its tables until its root is stored like any other
        keep = [o for o in a_prog if o["op"] in ("wtxn", "markdone", "commit")]
        g.niter += 1
        g.iters[g.niter] = dict(t=a_tabs[0], st="open", tx=None, lastgen=10 ** 9)
        keep.insert(1, dict(op="changes", tx=a_prog[0]["tx"], t=a_tabs[0], it=g.niter))
        a_prog = keep
    actors = [dict(name="A", prog=a_prog)]
    others = []
    kind = rng.choice(["writer-disjoint", "writer-overlap", "registrar", "registrar", "reader", "all"])
    if kind in ("writer-disjoint", "all"):
        rest = [t for t in g.tables if t not in a_tabs] or [a_tabs[0]]
        actors.append(dict(name="B", prog=writer_prog(g, rng, rest[:1], ntx=1, marker=4)))
        others.append("B")
    if kind in ("writer-overlap", "all"):
        actors.append(dict(name="C", prog=writer_prog(g, rng, [a_tabs[0]], ntx=1, marker=7)))
        others.append("C")
    newt = None
    if kind in ("registrar", "all"):
        newt = len(g.tables)
        g.ntx += 1
        g.nsnap += 1
        actors.append(dict(name="N", prog=[dict(op="newtable", t=newt), dict(op="wtxn", tx=g.ntx, tables=[newt]),
                                           dict(op="insert", tx=g.ntx, t=newt, obj=simple_obj(g, 2, 7), guard=0, gsym="", w=0),
                                           dict(op="commit", tx=g.ntx, snap=g.nsnap)]))
        others.append("N")
    if kind in ("reader", "all"):
        actors.append(dict(name="R", prog=reader_prog(g, rng, g.tables, n=1)))
        others.append("R")
    if newt is not None and rng.random() < 0.4:
        # a second goroutine registers the same table name: one of the two is told "duplicate", neither may leave a
        # lock behind
        actors.append(dict(name="N2", prog=[dict(op="newtable", t=newt)]))
        others.append("N2")
    gate = rng.choice(GATES[3:])
    sched = ["A"] * steps_to(gate, len(a_tabs))
    rng.shuffle(others)
    for b in others:
        sched += [b] * rng.choice([2, 3, 8, 25])
    sched += ["A"] * rng.choice([1, 2, 20])
    for b in others:
        sched += [b] * 25
    if newt is not None:
        g.tables.append(newt)
        g.tgen[newt] = 0
    for w in list(g.wtx):
        g.wtx.pop(w)
    s = g.snap()
    for t in g.tables:
        g.q(g.snap_src(s), t, "id", "all", [])
        g.scalar(g.snap_src(s), t, "rev")
    g.chans()
    for it, d in g.iters.items():
        if d["st"] == "open":
            d["lastgen"] = -1
            s2 = g.snap()
            g.next(it, src=g.snap_src(s2), take=-1)
            g.iterclose(it)
    return [dict(op="sched", setup=setup, actors=actors, schedule=sched, finish=g.ops, gc=False, nilempty=False)]


def gen_iterwindow(rng):
    """A change iterator that was only partially consumed, a committer parked at a gate of Commit (in particular
    between the store of the new root and the closing of the watch channels), and a consumer that calls Next with
    a snapshot taken right then: what it delivers must lead exactly to that snapshot."""
    g = DBGen(rng, "sched")
    ntab = rng.choice([1, 2, 2])
    for _ in range(ntab):
        g.newtable()
    t0 = 0
    tx = g.begin(list(g.tables))
    it = g.changes(tx, t0)
    g.commit(tx)
    # several committed changes the iterator has not seen, then a partial consumption
    tx = g.begin([t0])
    for pi in rng.sample(range(5), rng.randint(2, 4)):
        g.add(op="insert", tx=tx, t=t0, obj=simple_obj(g, pi, rng.randint(1, 9)), guard=0, gsym="", w=0)
    g.commit(tx)
    if rng.random() < 0.5:
        tx = g.begin([t0])
        g.add(op="delete", tx=tx, t=t0, obj=simple_obj(g, rng.randrange(5), 0), guard=0, gsym="", w=0)
        g.add(op="insert", tx=tx, t=t0, obj=simple_obj(g, rng.randrange(5), 2), guard=0, gsym="", w=0)
        g.commit(tx)
    s = g.snap()
    g.next(it, src=g.snap_src(s), take=rng.choice([0, 1, 1, 2]))
    setup = g.ops
    g.ops = []
    a_tabs = sorted(set([t0] + (rng.sample(g.tables, 1) if rng.random() < 0.5 else [])))
    a_prog = [o for o in writer_prog(g, rng, a_tabs, ntx=1, marker=1) if o["op"] != "abort"]
    if not any(o["op"] == "commit" for o in a_prog):
        g.nsnap += 1
        a_prog.append(dict(op="commit", tx=a_prog[0]["tx"], snap=g.nsnap))
    i_prog = []
    for j in range(3):
        g.nsnap += 1
        i_prog.append(dict(op="snap", id=g.nsnap))
        i_prog.append(dict(op="next", it=it, src={"kind": "snap", "id": g.nsnap},
                           take=-1 if j != 1 or rng.random() < 0.6 else rng.randint(0, 1), w=g.chan()))
    actors = [dict(name="A", prog=a_prog), dict(name="I", prog=i_prog)]
    gate = rng.choice(["commit.rootlocked", "commit.rootbuilt", "commit.stored", "commit.stored", "commit.rootunlocked", "commit.notified",
                       "commit.tablesunlocked"])
    sched = ["A"] * steps_to(gate, len(a_tabs)) + ["I"] * rng.choice([2, 4, 4]) + ["A"] * rng.choice([1, 2, 20]) \
        + ["I"] * 10 + ["A"] * 20
    for w in list(g.wtx):
        g.wtx.pop(w)
    g.iters[it]["lastgen"] = 10 ** 9          # only fresh snapshots from here on
    s = g.snap()
    for t in g.tables:
        g.q(g.snap_src(s), t, "id", "all", [])
        g.scalar(g.snap_src(s), t, "rev")
    g.chans()
    g.iters[it]["lastgen"] = -1
    s2 = g.snap()
    g.next(it, src=g.snap_src(s2), take=-1)
    g.next(it, src=g.snap_src(s2), take=-1)
    g.iterclose(it)
    return [dict(op="sched", setup=setup, actors=actors, schedule=sched, finish=g.ops, gc=False, nilempty=False)]


def gen_manytables(rng):
    """65..130 registered tables; a transaction over two tables whose positions are 64 (or 128) apart, another
    one on one of the two, a third one elsewhere: whatever table-set bookkeeping WriteTxn uses must tell all
    positions apart."""
    g = DBGen(rng, "sched")
    ntab = rng.choice([65, 66, 70, 129, 130])
    for _ in range(ntab):
        g.newtable()
    d = 64 if ntab < 129 or rng.random() < 0.5 else 128
    i = rng.randrange(0, ntab - d)
    j = i + d
    tx = g.begin([i, j])
    g.add(op="insert", tx=tx, t=i, obj=simple_obj(g, 0, 1), guard=0, gsym="", w=0)
    g.add(op="insert", tx=tx, t=j, obj=simple_obj(g, 1, 2), guard=0, gsym="", w=0)
    g.commit(tx)
    setup = g.ops
    g.ops = []
    pair = [i, j] if rng.random() < 0.5 else [j, i]

    def prog(tabs, marker):
        g.ntx += 1
        tx = g.ntx
        req = list(tabs)
        if rng.random() < 0.5:
            req = req + [rng.choice(req)]          # the same table named twice, also at positions >= 64
            rng.shuffle(req)
        p = [dict(op="wtxn", tx=tx, tables=req)]
        for t in sorted(set(tabs)):
            p.append(dict(op="insert", tx=tx, t=t, obj=simple_obj(g, 2 + marker, marker + 1), guard=0, gsym="", w=0))
        g.nsnap += 1
        p.append(dict(op="commit", tx=tx, snap=g.nsnap))
        return p

    other = rng.choice([t for t in g.tables if t not in (i, j)])
    actors = [dict(name="A", prog=prog(pair, 0)), dict(name="B", prog=prog([pair[1] if rng.random() < 0.8 else pair[0]], 1)),
              dict(name="C", prog=prog([other], 2))]
    first, second = ("A", "B") if rng.random() < 0.6 else ("B", "A")
    # park the first one while it holds its locks (after WriteTxn returned or deep inside Commit), run the others
    hold = rng.choice([4, 5, 6, 7, 8])
    sched = [first] * hold + [second] * 12 + ["C"] * 20 + [first] * 30 + [second] * 30
    for w in list(g.wtx):
        g.wtx.pop(w)
    s = g.snap()
    for t in (i, j, other):
        g.q(g.snap_src(s), t, "id", "all", [])
        g.scalar(g.snap_src(s), t, "rev")
    return [dict(op="sched", setup=setup, actors=actors, schedule=sched, finish=g.ops, gc=False, nilempty=False)]


def generate_manytables(n, seed):
    rng = random.Random(seed)
    return [gen_manytables(rng) for _ in range(n)]


def generate_directed(n, seed):
    rng = random.Random(seed)
    return [gen_directed(rng) if rng.random() < 0.7 else gen_iterwindow(rng) for _ in range(n)]


def gen_gcblock(rng):
    """The collector against open transactions: iterators on two tables, one of them lagging (its table's
    graveyard is not collectable), a writer holding a table, a consumer that triggers a collection run during
    the schedule, another writer on the table the collector needs."""
    g = DBGen(rng, "sched")
    a, b = g.newtable(), g.newtable()
    extra = g.newtable() if rng.random() < 0.3 else None
    tx = g.begin([a, b])
    for t in (a, b):
        for i in range(3):
            g.add(op="insert", tx=tx, t=t, obj=simple_obj(g, i, rng.randint(1, 9)), guard=0, gsym="", w=0)
    ia = g.changes(tx, a)
    ib = g.changes(tx, b)
    g.commit(tx)
    s = g.snap()
    g.next(ia, src=g.snap_src(s), take=-1)
    g.next(ia, src=g.snap_src(s), take=-1)
    lag_b = rng.random() < 0.8
    if not lag_b:
        g.next(ib, src=g.snap_src(s), take=-1)
    tx = g.begin([a, b])
    g.add(op="delete", tx=tx, t=a, obj=simple_obj(g, 0, 0), guard=0, gsym="", w=0)
    g.add(op="delete", tx=tx, t=b, obj=simple_obj(g, 0, 0), guard=0, gsym="", w=0)
    g.commit(tx)
    setup = g.ops
    g.ops = []
    hold = rng.choice([b, b, a])
    other = a if hold == b else b
    # U holds one table; I consumes the deletion on table a (mark -> collection run); W writes the other table
    g.nsnap += 1
    snap_i = g.nsnap
    consumer = ia
    stop = rng.random() < 0.3
    actors = [dict(name="U", prog=writer_prog(g, rng, [hold], ntx=1, marker=1)),
              dict(name="I", prog=[dict(op="snap", id=snap_i),
                                   dict(op="next", it=consumer, src={"kind": "snap", "id": snap_i}, take=-1, w=g.chan()),
                                   dict(op="next", it=consumer, src={"kind": "snap", "id": snap_i}, take=-1, w=g.chan())]),
              dict(name="W", prog=writer_prog(g, rng, [other], ntx=1, marker=4))]
    g.snaps[snap_i] = dict(g.tgen)
    g.iters[consumer]["lastgen"] = g.tgen[a]
    sched = ["U"] * rng.choice([4, 5, 6]) + ["I"] * 4 + ["GC"] * rng.choice([3, 8, 12]) + ["W"] * rng.choice([3, 9, 20])
    if stop:
        # the database is stopped while the collector is in the middle of a pass (possibly waiting for a table lock):
        # whatever it does then, it must not keep a lock; later transactions on its tables must still be granted
        actors.append(dict(name="S", prog=[dict(op="dbstop")]))
        g.ntx += 1
        g.nsnap += 1
        actors.append(dict(name="X", prog=[dict(op="wtxn", tx=g.ntx, tables=[a, b]),
                                           dict(op="insert", tx=g.ntx, t=a, obj=simple_obj(g, 4, 9), guard=0, gsym="", w=0),
                                           dict(op="commit", tx=g.ntx, snap=g.nsnap)]))
        sched += ["S"] * 2
    sched += ["GC"] * 3 + ["U"] * 20 + ["GC"] * 20 + ["W"] * 20 + (["X"] * 30 if stop else [])
    for w in list(g.wtx):
        g.wtx.pop(w)
    s = g.snap()
    for t in g.tables:
        g.q(g.snap_src(s), t, "id", "all", [])
    for it in (ia, ib):
        s2 = g.snap()
        g.next(it, src=g.snap_src(s2), take=-1)
        g.next(it, src=g.snap_src(s2), take=-1)
    g.iterclose(ia)
    g.iterclose(ib)
    return [dict(op="sched", setup=setup, actors=actors, schedule=sched, finish=g.ops, gc=True, nilempty=False)]


def gen_gclate(rng):
    """Progress that arrives while a collection pass is under way: the collector is parked at gc.scanned (its scan
    found the first tombstone collectable), the consumer takes the remaining deletions (their marks trigger the
    collector again) or the lagging iterator is closed, then the pass finishes.  Afterwards nothing is needed any
    more and the graveyard must drain."""
    g = DBGen(rng, "sched")
    a = g.newtable()
    if rng.random() < 0.4:
        g.newtable()
    tx = g.begin([a])
    n = rng.randint(3, 5)
    for i in range(n):
        g.add(op="insert", tx=tx, t=a, obj=simple_obj(g, i, rng.randint(1, 9)), guard=0, gsym="", w=0)
    ia = g.changes(tx, a)
    two = rng.random() < 0.4
    ib = g.changes(tx, a) if two else None
    g.commit(tx)
    s = g.snap()
    for it in (ia, ib):
        if it is not None:
            g.next(it, src=g.snap_src(s), take=-1)
            g.next(it, src=g.snap_src(s), take=-1)
    for i in range(n - 1 if rng.random() < 0.5 else 2):
        tx = g.begin([a])
        g.add(op="delete", tx=tx, t=a, obj=simple_obj(g, i, 0), guard=0, gsym="", w=0)
        g.commit(tx)
    s = g.snap()
    if ib is not None:
        g.next(ib, src=g.snap_src(s), take=-1)       # the second iterator is up to date
    # the first deletion is handed out: its mark starts a pass that can collect exactly that tombstone
    g.next(ia, src=g.snap_src(s), take=1)
    setup = g.ops
    g.ops = []
    g.nsnap += 1
    si = g.nsnap
    g.snaps[si] = dict(g.tgen)
    if rng.random() < 0.7:
        iprog = [dict(op="snap", id=si),
                 dict(op="next", it=ia, src={"kind": "snap", "id": si}, take=-1, w=g.chan()),
                 dict(op="next", it=ia, src={"kind": "snap", "id": si}, take=-1, w=g.chan())]
        g.iters[ia]["lastgen"] = g.tgen[a]
    else:
        iprog = [dict(op="iterclose", it=ia)]
        g.iters[ia]["st"] = "closed"
    actors = [dict(name="I", prog=iprog)]
    if rng.random() < 0.5:
        others = [t for t in g.tables if t != a]
        actors.append(dict(name="W", prog=writer_prog(g, rng, others[:1] or [a], ntx=1, marker=2)))
    hold = rng.choice([0, 1, 3, 6, 9])          # how far into its write transaction the collector gets first
    sched = ["GC"] * hold + ["I"] * 6 + (["W"] * rng.choice([0, 5, 30]) if len(actors) > 1 else []) + ["GC"] * 30 + ["W"] * 30
    for w in list(g.wtx):
        g.wtx.pop(w)
    for it, d in g.iters.items():
        if d["st"] == "open":
            s2 = g.snap()
            g.next(it, src=g.snap_src(s2), take=-1)
            g.next(it, src=g.snap_src(s2), take=-1)
    # every open iterator has seen every deletion: the graveyard must become empty
    g.add(op="grave", t=a, quiet=True, until=1)
    for it, d in g.iters.items():
        if d["st"] == "open":
            g.iterclose(it)
    return [dict(op="sched", setup=setup, actors=actors, schedule=sched, finish=g.ops, gc=True, nilempty=False)]


def generate_gcblock(n, seed):
    rng = random.Random(seed)
    return [gen_gcblock(rng) if rng.random() < 0.6 else gen_gclate(rng) for _ in range(n)]
